#!/venv/bin/python
"""Soundness self-test of the reference validator (oracles/refvalidate.py): valid documents built
with hugr-py's builders must pass; one hand-made invalid document per clause must fail with that
clause.  Also checks the wire oracle's index sanity and schema hooks.

usage: PYTHONPATH=/verif:/repo/hugr-py/src:/verif/.deps /venv/bin/python selftest/soundness.py
"""
import copy
import json
import os
import sys

VERIF = os.path.dirname(os.path.dirname(os.path.abspath(__file__)))
sys.path[:0] = [VERIF, os.environ.get("HUGR_SRC", "/repo/hugr-py/src"), os.path.join(VERIF, ".deps")]

from hugr import ops, tys, val  # noqa: E402
from hugr.build.cfg import Cfg  # noqa: E402
from hugr.build.cond_loop import Conditional  # noqa: E402
from hugr.build.dfg import Dfg  # noqa: E402
from hugr.build.function import Module  # noqa: E402
from hugr.std.logic import Not  # noqa: E402

from hugrsim.oracles import refvalidate, wire  # noqa: E402

B, Q = tys.Bool, tys.Qubit
BJ, QJ = {"t": "Sum", "s": "Unit", "size": 2}, {"t": "Q"}
failures = []


def doc_of(h):
    return json.loads(h.to_json())


def expect(name, doc, clause):
    errs = refvalidate.validate(doc)
    clauses = sorted({e[0] for e in errs})
    ok = (clause is None and not errs) or (clause is not None and clause in clauses)
    print(f"{'ok  ' if ok else 'FAIL'} {name}: expected {clause or 'valid'}, got {clauses or 'valid'}")
    if not ok:
        failures.append(name)
        for e in errs[:3]:
            print("      ", e)


# ---- base documents --------------------------------------------------------------------------------
d = Dfg(B, Q)
b, q = d.inputs()
n = d.add_op(Not, b)
d.set_outputs(n, q)
base = doc_of(d.hugr)  # 0 DFG, 1 Input, 2 Output, 3 Not
expect("base-dfg", base, None)

m = copy.deepcopy(base); m["nodes"][1]["types"] = [QJ, QJ]; expect("input-row", m, "io-rows")
m = copy.deepcopy(base); m["edges"].append([[3, 5], [2, 0]]); expect("out-offset-beyond-ports", m, "port-range")
m = copy.deepcopy(base); m["nodes"][2]["types"] = [QJ, QJ]; m["nodes"][0]["signature"]["output"] = [QJ, QJ]; expect("edge-type", m, "edge-type")
m = copy.deepcopy(base)
for e in m["edges"]:
    if e[0] == [3, 0]:
        e[0] = [3, 1]
expect("order-port-to-value-port", m, "edge-kind")
m = copy.deepcopy(base); m["edges"] = [e for e in m["edges"] if e[1] != [2, 0]]; expect("unconnected-input", m, "input-connected")
m = copy.deepcopy(base); m["edges"] = [e for e in m["edges"] if e[0] != [1, 1]]; expect("linear-unused", m, "linear-once")
m = copy.deepcopy(base); m["edges"].append([[1, 1], [2, 1]]); expect("linear-copied", m, "linear-once")
m = copy.deepcopy(base); m["nodes"][1], m["nodes"][2] = m["nodes"][2], m["nodes"][1]; expect("output-first", m, "first-child")
m = copy.deepcopy(base); m["nodes"][3] = {"parent": 0, "op": "Module"}; expect("module-under-dfg", m, "parent-child")
m = copy.deepcopy(base); m["nodes"][0]["parent"] = 1; expect("root-not-own-parent", m, "root")
m = copy.deepcopy(base); m["nodes"].append({"parent": 3, "op": "Input", "types": []}); expect("leaf-with-children", m, "parent-child")
m = copy.deepcopy(base); m["nodes"].append(copy.deepcopy(m["nodes"][1])); expect("later-input", m, "io-rows")
# cycle: two Nots feeding each other
d = Dfg(B)
(b,) = d.inputs()
n1 = d.add_op(Not, b)
n2 = d.add_op(Not, n1)
d.set_outputs(n2)
m = doc_of(d.hugr)
expect("base-chain", m, None)
m["edges"] = [e for e in m["edges"] if e[1] != [n1.idx, 0]] + [[[n2.idx, 0], [n1.idx, 0]]]
expect("cycle", m, "dag")
# nested region / Ext edges
d = Dfg(B, Q)
b, q = d.inputs()
with d.add_nested() as inner:
    x = inner.add_op(Not, b)
    inner.set_outputs(x)
d.set_outputs(inner[0], q)
ext = doc_of(d.hugr)
expect("base-ext-edge", ext, None)
m = copy.deepcopy(ext); m["edges"] = [e for e in m["edges"] if not (e[0][0] == 1 and e[0][1] == 2)]; expect("ext-edge-without-order-edge", m, "ext-edge-order")
dq = Dfg(Q)
(qq,) = dq.inputs()
with dq.add_nested(qq) as inner2:
    hh = inner2.add_op(ops.Custom("H", tys.FunctionType([Q], [Q]), extension="verif.q"), inner2.inputs()[0])
    inner2.set_outputs(hh)
dq.set_outputs(inner2[0])
m = doc_of(dq.hugr)
expect("base-linear-nested", m, None)
m["edges"] = [x for x in m["edges"] if x[1] != [hh.idx, 0]] + [[[1, 0], [hh.idx, 0]]]
expect("nonlocal-linear-edge", m, "nonlocal-copyable")
# value edge into a function body
mod = Module()
f = mod.define_function("f", [B], [B])
f.set_outputs(*f.inputs())
g = mod.define_function("g", [B], [B])
gn = g.add_op(Not, g.inputs()[0])
g.set_outputs(gn)
md = doc_of(mod.hugr)
expect("base-module", md, None)
m = copy.deepcopy(md)
f_in = next(i for i, nn in enumerate(m["nodes"]) if nn["op"] == "Input" and nn["parent"] == f.parent_node.idx)
g_not = next(i for i, nn in enumerate(m["nodes"]) if nn["op"] == "Extension")
m["edges"].append([[f_in, 0], [g_not, 0]])
expect("edge-between-functions", m, "no-relation")
# nested function inside a dfg with a value edge crossing into it
m = copy.deepcopy(ext)
dfg_idx = next(i for i, nn in enumerate(m["nodes"]) if nn["op"] == "DFG" and i != 0)
m["nodes"][dfg_idx] = {"parent": 0, "op": "FuncDefn", "name": "h", "signature": {"params": [], "body": m["nodes"][dfg_idx]["signature"]}}
m["edges"] = [e for e in m["edges"] if e[0][0] != dfg_idx and e[1][0] != dfg_idx]
errs = {e[0] for e in refvalidate.validate(m)}
print(("ok  " if "value-into-func" in errs else "FAIL"), "value-edge-into-funcdefn:", sorted(errs))
if "value-into-func" not in errs:
    failures.append("value-into-func")
# conditional
c = Conditional(tys.Sum([[B], [Q]]), [])
with c.add_case(0) as c0:
    (x,) = c0.inputs()
    c0.set_outputs(x)
with c.add_case(1) as c1:
    (y,) = c1.inputs()
    c1.add_op(ops.Custom("QFree", tys.FunctionType([Q], []), extension="verif.q"), y)
    c1.set_outputs(c1.load(val.TRUE))
cd = doc_of(c.hugr)
expect("base-conditional", cd, None)
m = copy.deepcopy(cd); m["nodes"][0]["sum_rows"] = [[BJ], [BJ]]; expect("case-inputs-mismatch", m, "case-rows")
m = copy.deepcopy(cd); m["nodes"][0]["sum_rows"] = [[BJ]]; expect("case-count", m, "case-rows")
m = copy.deepcopy(cd); m["nodes"].append({"parent": 0, "op": "Const", "v": {"v": "Tuple", "vs": []}}); expect("const-under-conditional", m, "parent-child")
# cfg
cfg = Cfg(B)
with cfg.add_entry() as e:
    e.set_single_succ_outputs(*e.inputs())
with cfg.add_successor(e[0]) as b1:
    b1.set_single_succ_outputs(*b1.inputs())
cfg.branch_exit(b1[0])
cf = doc_of(cfg.hugr)
expect("base-cfg", cf, None)
m = copy.deepcopy(cf); m["nodes"][0]["signature"]["output"] = [QJ]; expect("cfg-exit-row", m, "cfg-entry-exit")
m = copy.deepcopy(cf)
blk = next(i for i, nn in enumerate(m["nodes"]) if nn["op"] == "DataflowBlock" and i != 1)
m["nodes"][blk]["inputs"] = [QJ]
errs = {x[0] for x in refvalidate.validate(m)}
print(("ok  " if "cfg-edge-rows" in errs else "FAIL"), "cfg-successor-row:", sorted(errs))
if "cfg-edge-rows" not in errs:
    failures.append("cfg-edge-rows")
# dominance: diamond, value used from a non-dominating sibling block
cfg = Cfg(B)
with cfg.add_entry() as e:
    (x,) = e.inputs()
    e.set_block_outputs(x)  # Bool = Sum([[],[]]): two successors, no other outputs
with cfg.add_successor(e[0]) as l:
    lv = l.load(val.TRUE)
    l.set_single_succ_outputs()
with cfg.add_successor(e[1]) as r:
    r.set_single_succ_outputs()
with cfg.add_successor(l[0]) as j:
    j.set_single_succ_outputs(j.load(val.FALSE))
cfg.branch(r[0], j)
cfg.branch_exit(j[0])
dd = doc_of(cfg.hugr)
expect("base-diamond", dd, None)
m = copy.deepcopy(dd)
j_out = next(i for i, nn in enumerate(m["nodes"]) if nn["op"] == "Output" and nn["parent"] == j.parent_node.idx)
m["edges"] = [x for x in m["edges"] if not (x[1] == [j_out, 1])] + [[[lv.idx, 0], [j_out, 1]]]
expect("dom-edge-from-non-dominating-block", m, "dom-edge")
m = copy.deepcopy(dd)
e_in = next(i for i, nn in enumerate(m["nodes"]) if nn["op"] == "Input" and nn["parent"] == e.parent_node.idx)
m["edges"] = [x for x in m["edges"] if not (x[1] == [j_out, 1])] + [[[e_in, 0], [j_out, 1]]]
expect("dom-edge-from-dominating-entry (valid)", m, None)
# constants
d = Dfg()
k = d.load(val.Sum(1, tys.Sum([[B], [B, B]]), [val.TRUE, val.FALSE]))
d.set_outputs(k)
kd = doc_of(d.hugr)
expect("base-const", kd, None)
ci = next(i for i, nn in enumerate(kd["nodes"]) if nn["op"] == "Const")
m = copy.deepcopy(kd); m["nodes"][ci]["v"]["tag"] = 5; expect("const-tag-out-of-range", m, "const-inhabits")
m = copy.deepcopy(kd); m["nodes"][ci]["v"]["vs"] = m["nodes"][ci]["v"]["vs"][:1]; expect("const-field-count", m, "const-inhabits")
m = copy.deepcopy(kd); m["nodes"][ci]["v"]["typ"]["rows"][1][0] = QJ; expect("const-field-type", m, "const-inhabits")
# type variables
m = copy.deepcopy(base); m["nodes"][1]["types"][0] = {"t": "V", "i": 0, "b": "C"}
errs = {x[0] for x in refvalidate.validate(m)}
print(("ok  " if "type-vars" in errs else "FAIL"), "undeclared-type-variable:", sorted(errs))
if "type-vars" not in errs:
    failures.append("type-vars")
# empty-row general sums are unit sums for the reference reader
m = copy.deepcopy(base); m["nodes"][1]["types"][0] = {"t": "Sum", "s": "General", "rows": [[], []]}; expect("general-sum-with-empty-rows-equals-unit-sum", m, None)
# wire oracle
print("index sanity on base:", wire.index_sanity(base), "schema errors on base:", wire.schema_errors(base))
m = copy.deepcopy(base); m["nodes"][1]["parent"] = 3
if not any(c == "parent-not-earlier" for c, _ in wire.index_sanity(m)):
    failures.append("wire-parent-not-earlier")
m = copy.deepcopy(base); m["edges"].append([[9, 0], [2, 0]])
if not any(c == "edge-endpoint-out-of-range" for c, _ in wire.index_sanity(m)):
    failures.append("wire-endpoint")
m = copy.deepcopy(base); m["nodes"][3]["bogus"] = 1
if not wire.schema_errors(m):
    failures.append("wire-schema-extra-field")
print("FAILURES:", failures)
sys.exit(1 if failures else 0)
