#!/venv/bin/python
"""Sensitivity self-test: each mutant (and the pinned original tree, which carries the defects the
fix: commits repaired) must make the check of its property report a VIOLATION within the quick
budget, and (with --tests) must survive the repository's 180 baseline tests.

usage: selftest/sensitivity.py [--tests] [--only SUBSTR] [--orig]
Scratch copies live under $TMPDIR (never /repo or /verif) and are removed afterwards.
"""
import json
import os
import shutil
import subprocess
import sys
import tempfile

VERIF = os.path.dirname(os.path.dirname(os.path.abspath(__file__)))
sys.path.insert(0, os.path.join(VERIF, "selftest"))
from mutants import M  # noqa: E402

ORIG_REV = "d376254"
ORIG_PROPS = ["C01", "C02", "C03", "C04", "C08", "C10", "C11", "C12", "C15", "C19", "C20"]


def run_check(prop, src, repo="/repo", scale="1"):
    # scratch output directories: evidence files under /verif are only ever written from /repo's own tree
    env = dict(os.environ, HUGR_SRC=src, HUGR_REPO=repo, VERIF_SCALE=scale,
               VERIF_SCRATCH=os.path.join(tempfile.gettempdir(), "sensitivity-out"))
    p = subprocess.run([os.path.join(VERIF, "check"), prop], env=env, capture_output=True, text=True, timeout=900)
    viol = [l for l in p.stdout.splitlines() if l.startswith("VIOLATION")]
    keys = [l.split()[1] for l in p.stdout.splitlines() if l.strip().startswith("violation ")]
    return p.returncode, viol, keys


def baseline_tests(tree):
    b = json.load(open("/root/.vp/BASELINE.json"))
    x = os.path.join(tree, "r.xml")
    cmd = b["cmd"].replace("cd /repo", f"cd {tree}").replace("<file>", x)
    subprocess.run(cmd, shell=True, stdout=subprocess.DEVNULL, stderr=subprocess.DEVNULL, timeout=1800)
    import xml.etree.ElementTree as ET
    passed = set()
    for tc in ET.parse(x).getroot().iter("testcase"):
        if not any(c.tag in ("failure", "error", "skipped") for c in tc):
            passed.add(f"{tc.get('classname')}::{tc.get('name')}")
    os.remove(x)
    return sorted(set(b["stable_pass"]) - passed)


def main():
    args = sys.argv[1:]
    with_tests = "--tests" in args
    only = args[args.index("--only") + 1] if "--only" in args else ""
    results = []
    tmp = tempfile.mkdtemp(prefix="hugr-mut-")
    try:
        if "--orig" in args or not only:
            wt = os.path.join(tmp, "orig")
            subprocess.run(["git", "-C", "/repo", "worktree", "add", "-q", "--detach", wt, ORIG_REV], check=True)
            try:
                for prop in ORIG_PROPS:
                    rc, viol, keys = run_check(prop, os.path.join(wt, "hugr-py", "src"), wt)
                    ok = rc == 1 and viol
                    print(f"orig-tree {prop}: rc={rc} violations={len(viol)} {'DETECTED' if ok else 'MISSED'} {keys[:3]}", flush=True)
                    results.append(("orig:" + prop, ok))
            finally:
                subprocess.run(["git", "-C", "/repo", "worktree", "remove", "--force", wt])
        for (mid, prop, rel, old, new) in M:
            if only and only not in mid:
                continue
            tree = os.path.join(tmp, mid)
            if with_tests:
                subprocess.run(["git", "-C", "/repo", "worktree", "add", "-q", "--detach", tree, "HEAD"], check=True)
                src = os.path.join(tree, "hugr-py", "src")
            else:
                os.makedirs(tree)
                shutil.copytree("/repo/hugr-py/src", os.path.join(tree, "src"))
                src = os.path.join(tree, "src")
            path = os.path.join(src, rel)
            s = open(path).read()
            if s.count(old) != 1:
                print(f"{mid}: PATCH DOES NOT APPLY (count={s.count(old)})", flush=True)
                results.append((mid, False))
            else:
                s = s.replace(old, new)
                if "_SHARED" in new and "_SHARED =" not in s:
                    s = s.replace("class NotBijection(Exception):", "_SHARED: tuple = ({}, {})\n\n\nclass NotBijection(Exception):")
                open(path, "w").write(s)
                missing = baseline_tests(tree) if with_tests else None
                rc, viol, keys = run_check(prop, src)
                ok = rc == 1 and bool(viol)
                surv = "" if missing is None else (" tests:survives" if not missing else f" tests:KILLED-BY-{len(missing)}")
                print(f"{mid} [{prop}]: rc={rc} violations={len(viol)} {'DETECTED' if ok else 'MISSED'}{surv} {keys[:2]}", flush=True)
                results.append((mid, ok))
            if with_tests:
                subprocess.run(["git", "-C", "/repo", "worktree", "remove", "--force", tree])
            else:
                shutil.rmtree(tree, ignore_errors=True)
    finally:
        shutil.rmtree(tmp, ignore_errors=True)
        subprocess.run(["git", "-C", "/repo", "worktree", "prune"])
    missed = [m for m, ok in results if not ok]
    print(f"sensitivity: {len(results) - len(missed)}/{len(results)} detected; missed: {missed}")
    return 1 if missed else 0


if __name__ == "__main__":
    sys.exit(main())
