#!/venv/bin/python
"""Determinism self-test: same VERIF_SEED twice in fresh interpreters -> identical per-run event-log
digests; 16 vs 3 workers -> identical; a different PYTHONHASHSEED for every interpreter ->
identical (harness and, after the requirement-order fix, the SUT do not depend on hash order).

usage: selftest/determinism.py [PROP ...] [--seeds N] [--scale S]
"""
import glob
import json
import os
import subprocess
import sys
import tempfile

VERIF = os.path.dirname(os.path.dirname(os.path.abspath(__file__)))
sys.path.insert(0, VERIF)
from hugrsim.meta import PROPS  # noqa: E402


def digests(prop, seed, scale, workers=16, xor=0):
    # scratch output directories: the evidence files under /verif are the ones of the last full check, not of a self-test
    scratch = os.path.join(tempfile.gettempdir(), "determinism-out")
    env = dict(os.environ, VERIF_DIGESTS="1", VERIF_SCALE=str(scale), VERIF_SEED=str(seed), VERIF_WORKERS=str(workers),
               VERIF_HASHSEED_XOR=str(xor), VERIF_SCRATCH=scratch)
    p = subprocess.run([os.path.join(VERIF, "check"), prop], env=env, capture_output=True, text=True, timeout=900)
    out = {}
    for f in sorted(glob.glob(os.path.join(scratch, "out", prop, "batch-*.json.digests"))):
        out[os.path.basename(f)] = json.load(open(f))
    return p.returncode, out


def main():
    args = sys.argv[1:]
    seeds, scale = 3, 0.1
    props = []
    while args:
        a = args.pop(0)
        if a == "--seeds":
            seeds = int(args.pop(0))
        elif a == "--scale":
            scale = float(args.pop(0))
        else:
            props.append(a)
    props = props or sorted(PROPS)
    bad = 0
    total_runs = 0
    for prop in props:
        for seed in range(100, 100 + seeds):
            rc0, a = digests(prop, seed, scale)
            rc1, b = digests(prop, seed, scale)
            rc2, c = digests(prop, seed, scale, workers=3)
            rc3, d = digests(prop, seed, scale, xor=0x5bd1e995)
            n = sum(len(v) for v in a.values())
            total_runs += n
            ok = a == b == c == d and n > 0 and rc0 == rc1 == rc2 == rc3
            why = []
            if a != b:
                why.append("twice-differs")
            if a != c:
                why.append("workers-16-vs-3-differs")
            if a != d:
                why.append("other-hashseeds-differ")
            print(f"{prop} seed={seed} runs={n} rc={rc0},{rc1},{rc2},{rc3} {'OK' if ok else 'MISMATCH ' + ','.join(why)}", flush=True)
            if not ok:
                bad += 1
                for k in a:
                    for i, (x, y) in enumerate(zip(a[k], d.get(k, []))):
                        if x != y:
                            print(f"   first difference: {k} run {i}")
                            break
    print(f"determinism: {total_runs} runs compared 4 ways, mismatching configurations: {bad}")
    return 1 if bad else 0


if __name__ == "__main__":
    sys.exit(main())
