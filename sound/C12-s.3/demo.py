"""Shared part of the demos: example HUGRs and an independent oracle for C12.

Only dataclass fields / repr are used on hugr.model objects (the Rust binding
`hugr._hugr` is not available here, so `str()` of model objects is not usable).
"""

import dataclasses
import hashlib
import json
import sys

import hugr.model as model
from hugr import ops, tys, val
from hugr.build.function import Module
from hugr.hugr.node_port import InPort, OutPort
from hugr.std.int import INT_T, DivMod, IntVal

# --------------------------------------------------------------------------
# Example HUGRs (all module rooted, all produced by the builders)
# --------------------------------------------------------------------------


def ex_calls_and_consts():
    """A function called three times, a declaration called and loaded, a
    constant (in the module and in a function) loaded more than once, metadata.
    """
    mod = Module()
    f_id = mod.define_function("id", [tys.Bool])
    f_id.set_outputs(f_id.input_node[0])
    f_decl = mod.declare_function(
        "ext", tys.PolyFuncType([], tys.FunctionType([tys.Bool, tys.Bool], [tys.Bool]))
    )
    k = mod.add_const(val.TRUE)  # constant at module level

    main = mod.define_main([tys.Bool])
    (b,) = main.inputs()
    c1 = main.call(f_id, b)
    c2 = main.call(f_id, c1)
    c3 = main.call(f_id, b)
    l1 = main.load(k)
    l2 = main.load(k)
    local = main.add_const(val.FALSE)
    l3 = main.load(local)
    l4 = main.load(local)
    e1 = main.call(f_decl, c2, l1)
    e2 = main.call(f_decl, c3, l2)
    e3 = main.call(f_decl, l3, l4)
    fv = main.load_function(f_decl)
    e4 = main.add(ops.CallIndirect()(fv, e1, e2))
    main.hugr[c1].metadata["note"] = {"a": [1, 2, 3], "b": None}
    main.hugr[e4].metadata["k1"] = "v1"
    main.hugr[e4].metadata["k2"] = 2.5
    main.hugr[main.parent_node].metadata["fn"] = ["main"]
    main.set_outputs(e3, e4)
    return mod.hugr


def ex_order_edges():
    """Order edges between non-boundary siblings, to the boundary, in a nested
    DFG, and on nodes that have several of them.
    """
    mod = Module()
    f_id = mod.define_function("id", [tys.Bool])
    f_id.set_outputs(f_id.input_node[0])
    main = mod.define_main([tys.Bool])
    (b,) = main.inputs()
    c1 = main.call(f_id, b)
    c2 = main.call(f_id, b)
    c3 = main.call(f_id, b)
    n = main.add(ops.Noop()(c3))
    main.add_state_order(c1, c2)
    main.add_state_order(c1, c3)
    main.add_state_order(c2, n)
    main.add_state_order(c3, n)
    main.add_state_order(main.input_node, c1)  # boundary: not an order hint
    main.add_state_order(n, main.output_node)  # boundary: not an order hint
    with main.add_nested(n) as inner:
        (x,) = inner.inputs()
        a1 = inner.add(ops.Noop()(x))
        a2 = inner.add(ops.Noop()(x))
        a3 = inner.call(f_id, a2)
        inner.add_state_order(a1, a2)
        inner.add_state_order(a1, a3)
        inner.add_state_order(a1, inner.output_node)
        inner.set_outputs(a3)
    main.add_state_order(c2, inner.parent_node)
    main.set_outputs(inner)
    return mod.hugr


def ex_nested_control_flow():
    """CFG with branching and a join, a conditional and a tail loop inside the
    blocks, constants in a CFG and in blocks.
    """
    mod = Module()
    f_id = mod.define_function("idint", [INT_T])
    f_id.set_outputs(f_id.input_node[0])

    main = mod.define_main([tys.Bool, INT_T])
    b, i = main.inputs()
    cfg = main.add_cfg(b, i)
    with cfg.add_entry() as entry:
        eb, ei = entry.inputs()
        entry.set_block_outputs(eb, ei)

    with cfg.add_successor(entry[0]) as left:
        (li,) = left.inputs()
        # conditional inside a block
        flag = left.load(val.TRUE)
        with left.add_conditional(flag, li) as cond:
            with cond.add_case(0) as case0:
                (x,) = case0.inputs()
                case0.set_outputs(case0.call(f_id, x))
            with cond.add_case(1) as case1:
                (x,) = case1.inputs()
                d = case1.add(DivMod(x, x))
                case1.set_outputs(d[0])
        left.set_single_succ_outputs(cond)

    with cfg.add_successor(entry[1]) as right:
        (ri,) = right.inputs()
        # tail loop inside a block
        with right.add_tail_loop([], [ri]) as loop:
            (x,) = loop.inputs()
            stop = loop.load(val.Sum(1, tys.Sum([[], []]), []))
            y = loop.call(f_id, x)
            loop.set_loop_outputs(stop, y)
        c = right.load(IntVal(7))
        s = right.add(DivMod(loop, c))
        right.set_single_succ_outputs(s[1])

    with cfg.add_successor(left[0]) as join:
        (ji,) = join.inputs()
        k = join.load(IntVal(7))
        join.set_single_succ_outputs(join.add(DivMod(ji, k))[0])
    cfg.branch(right[0], join)
    cfg.branch_exit(join[0])
    main.set_outputs(cfg)
    return mod.hugr


def ex_polymorphic():
    """Polymorphic declaration and definition, called / loaded at two
    different instantiations, together with aliases.
    """
    mod = Module()
    mod.add_alias_defn("my_int", INT_T)
    mod.add_alias_decl("my_bool", tys.TypeBound.Copyable)
    var_any = tys.Variable(0, tys.TypeBound.Any)
    var_copy = tys.Variable(0, tys.TypeBound.Copyable)
    p_id = mod.declare_function(
        "id",
        tys.PolyFuncType(
            [tys.TypeTypeParam(tys.TypeBound.Any)], tys.FunctionType.endo([var_any])
        ),
    )
    p_dup = mod.declare_function(
        "dup",
        tys.PolyFuncType(
            [tys.TypeTypeParam(tys.TypeBound.Copyable)],
            tys.FunctionType([var_copy], [var_copy, var_copy]),
        ),
    )
    main = mod.define_main([tys.Qubit, tys.Bool])
    q, b = main.inputs()
    cq = main.call(
        p_id,
        q,
        instantiation=tys.FunctionType.endo([tys.Qubit]),
        type_args=[tys.Qubit.type_arg()],
    )
    cb = main.call(
        p_id,
        b,
        instantiation=tys.FunctionType.endo([tys.Bool]),
        type_args=[tys.Bool.type_arg()],
    )
    dd = main.call(
        p_dup,
        cb,
        instantiation=tys.FunctionType([tys.Bool], [tys.Bool, tys.Bool]),
        type_args=[tys.Bool.type_arg()],
    )
    lf = main.load_function(
        p_id,
        instantiation=tys.FunctionType.endo([tys.Bool]),
        type_args=[tys.Bool.type_arg()],
    )
    ci = main.add(ops.CallIndirect()(lf, dd[0]))
    tagged = main.add(ops.Tag(1, tys.Sum([[tys.Qubit], [tys.Bool, tys.Bool]]))(ci, dd[1]))
    main.set_outputs(cq, tagged)
    return mod.hugr


EXAMPLES = {
    "calls_and_consts": ex_calls_and_consts,
    "order_edges": ex_order_edges,
    "nested_control_flow": ex_nested_control_flow,
    "polymorphic": ex_polymorphic,
}

# --------------------------------------------------------------------------
# The oracle
# --------------------------------------------------------------------------

# What hugr-model/src/v0/ast/python.rs reads with getattr from each class.
RUST_ATTRS = {
    "Wildcard": [],
    "Var": ["name"],
    "Apply": ["symbol", "args"],
    "Splice": ["seq"],
    "List": ["parts"],
    "Tuple": ["parts"],
    "Literal": ["value"],
    "Func": ["region"],
    "Param": ["name", "type"],
    "Symbol": ["name", "params", "constraints", "signature"],
    "InvalidOp": [],
    "Dfg": [],
    "Cfg": [],
    "Block": [],
    "DefineFunc": ["symbol"],
    "DeclareFunc": ["symbol"],
    "CustomOp": ["operation"],
    "DefineAlias": ["symbol", "value"],
    "DeclareAlias": ["symbol"],
    "TailLoop": [],
    "Conditional": [],
    "DeclareConstructor": ["symbol"],
    "DeclareOperation": ["symbol"],
    "Import": ["name"],
    "Node": ["operation", "inputs", "outputs", "regions", "meta", "signature"],
    "Region": ["kind", "sources", "targets", "children", "meta", "signature"],
    "Module": ["root"],
    "Package": ["modules"],
}


class Violation(Exception):
    pass


def need(cond, msg):
    if not cond:
        raise Violation(msg)


def check_model_classes():
    for cls_name, attrs in RUST_ATTRS.items():
        cls = getattr(model, cls_name)
        got = [f.name for f in dataclasses.fields(cls)]
        need(sorted(got) == sorted(attrs), f"{cls_name}: fields {got} != {attrs}")


class Oracle:
    """Walks a HUGR and its exported model side by side."""

    def __init__(self, h, m=None):
        self.h = h
        self.m = h.to_model() if m is None else m
        # (port, name) for every port that is visible in the model
        self.port_names = {}
        self.funcs = {}  # hugr function node -> symbol name
        self.calls = []  # (hugr node, applied symbol name)
        self.n_nodes = 0

    # -- helpers -----------------------------------------------------------
    def op(self, n):
        return self.h[n].op

    def record(self, port, name):
        need(isinstance(name, str), f"link name of {port} is {name!r}")
        need(port not in self.port_names, f"{port} listed twice")
        self.port_names[port] = name

    def expected_ports(self, n):
        op = self.op(n)
        if isinstance(op, ops.Call):
            return len(op.instantiation.input), len(op.instantiation.output)
        if isinstance(op, ops.DataflowBlock):
            return 1, len(op.sum_ty.variant_rows)
        if isinstance(op, ops.ExitBlock):
            return 1, 0
        if isinstance(op, ops.DataflowOp):
            sig = op.outer_signature()
            return len(sig.input), len(sig.output)
        return 0, 0

    # -- the walk ----------------------------------------------------------
    def run(self):
        need(isinstance(self.m, model.Module), "not a Module")
        root = self.m.root
        need(root.kind == model.RegionKind.MODULE, "root region is not a module")
        need(list(root.sources) == [] and list(root.targets) == [], "module ports")
        kids = [
            c for c in self.h.children(self.h.root) if not isinstance(self.op(c), ops.Const)
        ]
        need(len(kids) == len(root.children), "module children")
        for hn, mn in zip(kids, root.children, strict=True):
            self.node(hn, mn)
        self.check_links()
        self.check_calls()
        return self

    def node(self, hn, mn):
        self.n_nodes += 1
        op = self.op(hn)
        need(isinstance(mn, model.Node), f"{hn}: not a model node")
        n_in, n_out = self.expected_ports(hn)
        need(len(mn.inputs) == n_in, f"{hn} {op}: {len(mn.inputs)} inputs, want {n_in}")
        need(
            len(mn.outputs) == n_out, f"{hn} {op}: {len(mn.outputs)} outputs, want {n_out}"
        )
        for i, name in enumerate(mn.inputs):
            self.record(InPort(hn, i), name)
        for i, name in enumerate(mn.outputs):
            self.record(OutPort(hn, i), name)
        self.check_meta(hn, mn)

        mop = mn.operation
        match op:
            case ops.FuncDefn():
                need(isinstance(mop, model.DefineFunc), f"{hn}: {mop!r}")
                self.symbol(hn, op, mop.symbol)
                need(len(mn.regions) == 1, f"{hn}: regions")
                self.dfg_region(hn, mn.regions[0])
            case ops.FuncDecl():
                need(isinstance(mop, model.DeclareFunc), f"{hn}: {mop!r}")
                self.symbol(hn, op, mop.symbol)
                need(len(mn.regions) == 0, f"{hn}: regions")
            case ops.AliasDecl():
                need(isinstance(mop, model.DeclareAlias), f"{hn}: {mop!r}")
                need(mop.symbol.name == op.alias, "alias name")
            case ops.AliasDefn():
                need(isinstance(mop, model.DefineAlias), f"{hn}: {mop!r}")
                need(mop.symbol.name == op.alias, "alias name")
                need(mop.value == op.definition.to_model(), "alias value")
            case ops.DFG():
                need(isinstance(mop, model.Dfg), f"{hn}: {mop!r}")
                need(len(mn.regions) == 1, f"{hn}: regions")
                self.dfg_region(hn, mn.regions[0])
                need(mn.signature == op.outer_signature().to_model(), "dfg sig")
            case ops.TailLoop():
                need(isinstance(mop, model.TailLoop), f"{hn}: {mop!r}")
                need(len(mn.regions) == 1, f"{hn}: regions")
                self.dfg_region(hn, mn.regions[0])
                need(mn.signature == op.outer_signature().to_model(), "loop sig")
            case ops.Conditional():
                need(isinstance(mop, model.Conditional), f"{hn}: {mop!r}")
                cases = self.h.children(hn)
                need(len(mn.regions) == len(cases), f"{hn}: cases")
                for case, region in zip(cases, mn.regions, strict=True):
                    need(isinstance(self.op(case), ops.Case), "case")
                    self.dfg_region(case, region)
                need(mn.signature == op.outer_signature().to_model(), "cond sig")
            case ops.CFG():
                need(isinstance(mop, model.Cfg), f"{hn}: {mop!r}")
                need(len(mn.regions) == 1, f"{hn}: regions")
                self.cfg_region(hn, mn.regions[0])
                need(mn.signature == op.outer_signature().to_model(), "cfg sig")
            case ops.DataflowBlock():
                need(isinstance(mop, model.Block), f"{hn}: {mop!r}")
                need(len(mn.regions) == 1, f"{hn}: regions")
                self.dfg_region(hn, mn.regions[0])
            case ops.Call():
                need(isinstance(mop, model.CustomOp), f"{hn}: {mop!r}")
                t = mop.operation
                need(t.symbol == "core.call" and len(t.args) == 3, f"{hn}: {t!r}")
                need(
                    t.args[0] == model.List([x.to_model() for x in op.instantiation.input]),
                    "call inputs",
                )
                need(
                    t.args[1]
                    == model.List([x.to_model() for x in op.instantiation.output]),
                    "call outputs",
                )
                func = t.args[2]
                need(isinstance(func, model.Apply), "call func")
                need(
                    list(func.args) == [a.to_model() for a in op.type_args],
                    "call type args",
                )
                self.calls.append((hn, func.symbol))
                need(mn.signature == op.instantiation.to_model(), "call sig")
            case ops.LoadFunc():
                need(isinstance(mop, model.CustomOp), f"{hn}: {mop!r}")
                t = mop.operation
                need(t.symbol == "core.load_const" and len(t.args) == 2, f"{hn}: {t!r}")
                need(t.args[0] == op.instantiation.to_model(), "load_func type")
                func = t.args[1]
                need(isinstance(func, model.Apply), "load func")
                need(
                    list(func.args) == [a.to_model() for a in op.type_args],
                    "load_func type args",
                )
                self.calls.append((hn, func.symbol))
            case ops.LoadConst():
                need(isinstance(mop, model.CustomOp), f"{hn}: {mop!r}")
                t = mop.operation
                need(t.symbol == "core.load_const" and len(t.args) == 2, f"{hn}: {t!r}")
                srcs = list(self.h.linked_ports(InPort(hn, 0)))
                need(len(srcs) == 1, "const source")
                const = self.op(srcs[0].node)
                need(isinstance(const, ops.Const), "const source op")
                need(t.args[0] == op.type_.to_model(), "load_const type")
                need(t.args[1] == const.val.to_model(), "constant not inlined")
                need(mn.signature == op.outer_signature().to_model(), "load sig")
            case ops.Const() | ops.Input() | ops.Output():
                need(False, f"{hn}: {op} must not be a model node")
            case _:
                need(isinstance(mop, model.CustomOp), f"{hn}: {mop!r}")
                need(len(mn.regions) == 0, f"{hn}: regions")

    def symbol(self, hn, op, sym):
        need(isinstance(sym, model.Symbol), "symbol")
        need(isinstance(sym.name, str) and sym.name, "symbol name")
        need(sym.name not in self.funcs.values(), f"symbol {sym.name} twice")
        self.funcs[hn] = sym.name
        need(len(sym.params) == len(op.signature.params), "symbol params")
        need(len({p.name for p in sym.params}) == len(sym.params), "param names")
        for p, hp in zip(sym.params, op.signature.params, strict=True):
            need(p.type == hp.to_model(), "param type")
        need(sym.signature == op.signature.body.to_model(), "symbol signature")
        n_copy = sum(
            1
            for hp in op.signature.params
            if isinstance(hp, tys.TypeTypeParam) and hp.bound == tys.TypeBound.Copyable
        )
        need(len(sym.constraints) == n_copy, "constraints")

    def dfg_region(self, parent, region):
        need(region.kind == model.RegionKind.DATA_FLOW, f"{parent}: region kind")
        kids = self.h.children(parent)
        inp = [c for c in kids if isinstance(self.op(c), ops.Input)]
        out = [c for c in kids if isinstance(self.op(c), ops.Output)]
        need(len(inp) == 1 and len(out) == 1, f"{parent}: io nodes")
        n_src = len(self.op(inp[0]).types)
        n_tgt = len(self.op(out[0]).types)
        need(len(region.sources) == n_src, f"{parent}: sources")
        need(len(region.targets) == n_tgt, f"{parent}: targets")
        for i, name in enumerate(region.sources):
            self.record(OutPort(inp[0], i), name)
        for i, name in enumerate(region.targets):
            self.record(InPort(out[0], i), name)
        need(
            region.signature
            == model.Apply(
                "core.fn",
                [
                    model.List([t.to_model() for t in self.op(inp[0]).types]),
                    model.List([t.to_model() for t in self.op(out[0]).types]),
                ],
            ),
            f"{parent}: region signature",
        )
        rest = [
            c
            for c in kids
            if not isinstance(self.op(c), ops.Input | ops.Output | ops.Const)
        ]
        need(len(rest) == len(region.children), f"{parent}: region children")
        for hn, mn in zip(rest, region.children, strict=True):
            self.node(hn, mn)
        self.check_order(parent, rest, region)

    def cfg_region(self, parent, region):
        need(region.kind == model.RegionKind.CONTROL_FLOW, f"{parent}: region kind")
        kids = self.h.children(parent)
        blocks = [c for c in kids if isinstance(self.op(c), ops.DataflowBlock)]
        exits = [c for c in kids if isinstance(self.op(c), ops.ExitBlock)]
        need(len(exits) == 1, "exit")
        need(kids[0] == blocks[0], "entry block first")
        need(len(region.sources) == 1 and len(region.targets) == 1, "cfg ports")
        # the region source is the entry; it is the same port as the entry
        # block's control input, so it must agree with the name listed there
        entry_name = region.sources[0]
        self.record(InPort(exits[0], 0), region.targets[0])
        need(len(blocks) == len(region.children), f"{parent}: blocks")
        for hn, mn in zip(blocks, region.children, strict=True):
            self.node(hn, mn)
        need(self.port_names[InPort(blocks[0], 0)] == entry_name, "cfg entry link")
        need(list(region.meta) == [], "cfg region meta")

    def order_key(self, mn):
        keys = [
            t.args[0].value
            for t in mn.meta
            if isinstance(t, model.Apply) and t.symbol == "core.order_hint.key"
        ]
        need(len(keys) <= 1, "several order keys on a node")
        return keys[0] if keys else None

    def check_order(self, parent, rest, region):
        keys = {}
        for hn, mn in zip(rest, region.children, strict=True):
            k = self.order_key(mn)
            if k is not None:
                need(isinstance(k, int) and k >= 0, f"order key {k!r} is not a nat")
                need(k not in keys.values(), f"{parent}: duplicate order key {k}")
                keys[hn] = k
        want = set()
        for a in rest:
            for b in self.h.outgoing_order_links(a):
                if b in rest:
                    need(a in keys and b in keys, f"order edge {a}->{b}: missing key")
                    want.add((keys[a], keys[b]))
        got = []
        for t in region.meta:
            need(
                isinstance(t, model.Apply) and t.symbol == "core.order_hint.order",
                f"{parent}: unexpected region meta {t!r}",
            )
            got.append((t.args[0].value, t.args[1].value))
        need(set(got) == want, f"{parent}: order hints {sorted(got)} != {sorted(want)}")
        need(len(got) == len(set(got)), f"{parent}: repeated order hint")

    def check_meta(self, hn, mn):
        want = self.h[hn].metadata
        got = {}
        for t in mn.meta:
            need(isinstance(t, model.Apply), f"{hn}: meta {t!r}")
            if t.symbol == "compat.meta_json":
                k, v = t.args
                need(k.value not in got, f"{hn}: metadata key twice")
                got[k.value] = json.loads(v.value)
            else:
                need(t.symbol == "core.order_hint.key", f"{hn}: meta {t.symbol}")
        need(got == dict(want), f"{hn}: metadata {got} != {want}")

    def check_links(self):
        # connected components of the HUGR edges over the visible ports
        comp = {p: p for p in self.port_names}

        def find(p):
            while comp[p] != p:
                p = comp[p]
            return p

        n_edges = 0
        for src, dst in self.h.links():
            vis = (src in comp, dst in comp)
            need(vis[0] == vis[1], f"edge {src}->{dst} half visible")
            if vis[0]:
                n_edges += 1
                comp[find(src)] = find(dst)
        by_name = {}
        for p, name in self.port_names.items():
            by_name.setdefault(name, set()).add(p)
        by_comp = {}
        for p in self.port_names:
            by_comp.setdefault(find(p), set()).add(p)
        a = sorted(sorted(map(repr, s)) for s in by_name.values())
        b = sorted(sorted(map(repr, s)) for s in by_comp.values())
        need(a == b, "link names do not partition the ports like the edges do")
        for name, ports in by_name.items():
            n_out = sum(1 for p in ports if isinstance(p, OutPort))
            n_in = sum(1 for p in ports if isinstance(p, InPort))
            need(not (n_out > 1 and n_in > 1), f"link {name}: {n_out} x {n_in}")
            need(
                name.isascii() and all(ch.isalnum() or ch in "_-" for ch in name),
                f"link name {name!r} not writable in the text format",
            )
        self.n_links = len(by_name)
        self.n_edges = n_edges

    def check_calls(self):
        need(len(set(self.funcs.values())) == len(self.funcs), "symbols not unique")
        for hn, sym in self.calls:
            op = self.op(hn)
            off = op._function_port_offset() if isinstance(op, ops.Call) else 0
            (src,) = self.h.linked_ports(InPort(hn, off))
            need(src.node in self.funcs, f"{hn}: callee {src.node} not in the module")
            need(
                sym == self.funcs[src.node],
                f"{hn}: applies {sym}, callee symbol is {self.funcs[src.node]}",
            )


def check_all(verbose=True):
    check_model_classes()
    results = {}
    for name, build in EXAMPLES.items():
        h = build()
        o = Oracle(h).run()
        results[name] = o
        if verbose:
            print(
                f"  {name}: {len(h)} hugr nodes, {o.n_nodes} model nodes, "
                f"{o.n_edges} visible edges, {o.n_links} links, "
                f"{len(o.calls)} calls/loads of {len(o.funcs)} functions: ok"
            )
    return results


def _first_node(region, pred):
    for n in region.children:
        if pred(n):
            return n
        for r in n.regions:
            hit = _first_node(r, pred)
            if hit is not None:
                return hit
    return None


def oracle_self_test():
    """The oracle is not vacuous: tampered exports are rejected."""

    def rejected(h, m):
        try:
            Oracle(h, m).run()
        except Violation:
            return True
        return False

    # 1. a consumer port is given a fresh link name
    h = ex_calls_and_consts()
    m = h.to_model()
    n = _first_node(m.root, lambda n: len(n.inputs) > 0)
    n.inputs = ["fresh", *n.inputs[1:]]
    need(rejected(h, m), "self-test: renamed link not noticed")
    # 2. two unrelated links are merged
    m = h.to_model()
    n = _first_node(m.root, lambda n: len(n.inputs) > 1)
    n.inputs = [n.inputs[0]] * len(n.inputs)
    need(rejected(h, m), "self-test: merged links not noticed")
    # 3. a call applies a symbol that is not in the module
    m = h.to_model()
    n = _first_node(
        m.root,
        lambda n: isinstance(n.operation, model.CustomOp)
        and n.operation.operation.symbol == "core.call",
    )
    t = n.operation.operation
    n.operation = model.CustomOp(
        model.Apply(t.symbol, [t.args[0], t.args[1], model.Apply("_nowhere_99")])
    )
    need(rejected(h, m), "self-test: dangling callee not noticed")
    # 4. an order hint is dropped / a key is changed on one side only
    h = ex_order_edges()
    m = h.to_model()
    r = _first_node(m.root, lambda n: n.regions and n.regions[0].meta).regions[0]
    r.meta = list(r.meta)[1:]
    need(rejected(h, m), "self-test: dropped order hint not noticed")
    m = h.to_model()
    n = _first_node(
        m.root,
        lambda n: any(
            isinstance(t, model.Apply) and t.symbol == "core.order_hint.key"
            for t in n.meta
        ),
    )
    n.meta = [
        model.Apply("core.order_hint.key", [model.Literal(10_000)])
        if t.symbol == "core.order_hint.key"
        else t
        for t in n.meta
    ]
    need(rejected(h, m), "self-test: one-sided order key not noticed")
    # 5. metadata is lost
    h = ex_calls_and_consts()
    m = h.to_model()
    n = _first_node(
        m.root, lambda n: any(t.symbol == "compat.meta_json" for t in n.meta)
    )
    n.meta = []
    need(rejected(h, m), "self-test: lost metadata not noticed")


def export_digests():
    return {
        name: hashlib.sha256(repr(build().to_model()).encode()).hexdigest()[:16]
        for name, build in EXAMPLES.items()
    }


# Digests of repr(hugr.to_model()) recorded on the unchanged tree.
CLEAN_DIGESTS = {
    "calls_and_consts": "0690f16cbb67adbe",
    "order_edges": "febd942dba163d83",
    "nested_control_flow": "ad15589d3ae49afc",
    "polymorphic": "add73560316af146",
}


def check_histories():
    """The same property after other histories: the HUGR went through JSON, a
    HUGR is exported twice, and an exporter object is used directly.
    """
    from hugr.hugr.base import Hugr
    from hugr.model.export import ModelExport

    for name, build in EXAMPLES.items():
        h = build()
        first = h.to_model()
        Oracle(h, first).run()
        # exporting again gives an equal module (the export keeps no state)
        need(h.to_model() == first, f"{name}: second export differs")
        # the export of a HUGR that went through JSON has the property as well
        h2 = Hugr.load_json(h.to_json())
        Oracle(h2).run()
        # the exporter object itself, used the way Hugr.to_model uses it
        region = ModelExport(h).export_region_module(h.root)
        Oracle(h, model.Module(region)).run()
    print("  after a JSON round trip / exported twice / through ModelExport: ok")


def show_names(h):
    """The link names as they appear, function by function."""
    m = h.to_model()

    def walk(region, depth):
        pad = "    " + "  " * depth
        if region.sources or region.targets:
            print(f"{pad}region {list(region.sources)} -> {list(region.targets)}")
        for n in region.children:
            op = n.operation
            label = type(op).__name__
            if isinstance(op, model.CustomOp):
                label = op.operation.symbol
            elif hasattr(op, "symbol"):
                label += " " + op.symbol.name
            print(f"{pad}  {label} {list(n.inputs)} -> {list(n.outputs)}")
            for r in n.regions:
                walk(r, depth + 2)

    walk(m.root, 0)


def main():
    print("C12 on the example HUGRs:")
    results = check_all()
    check_histories()
    oracle_self_test()
    print("  oracle self-test (tampered exports are rejected): ok")
    print("link names chosen in this tree for the example 'polymorphic':")
    show_names(ex_polymorphic())
    names = sorted(set(results["nested_control_flow"].port_names.values()), key=int)
    print("link names used in 'nested_control_flow':", " ".join(names))
    print(
        "export identical to the one recorded on the unchanged tree:",
        export_digests() == CLEAN_DIGESTS,
        "(only the spelling of link names may differ; the partition is checked above)",
    )


if __name__ == "__main__":
    try:
        main()
    except Violation as e:
        print("FAIL:", e)
        sys.exit(1)
    print("PASS")
