"""Demo for property C19 (shot results -> register bitstrings / counts / collation).

An independent reference model of the documented convention is compared with
hugr.qsystem.result on hand-written and randomly generated shots.
Run:  PYTHONPATH=/tmp/sf-C19/hugr-py/src /venv/bin/python demo.py
"""

from __future__ import annotations

import random
import re
import warnings
from collections import Counter

TAG = re.compile(r"^([a-z][\w_]*)\[(\d+)\]$")


class Reject(Exception):
    """The reference model says: ValueError expected."""


def ref_bit(v):
    if isinstance(v, int) and (v == 0 or v == 1):  # bools are ints
        return "1" if v else "0"
    raise Reject(v)


def ref_register_bits(entries):
    regs: dict[str, list[str]] = {}
    for tag, data in entries:
        m = TAG.match(tag)
        if m:
            name, n = m.group(1), int(m.group(2))
            bit = ref_bit(data)
            cur = regs.setdefault(name, [])
            while len(cur) <= n:
                cur.append("0")
            cur[n] = bit
        elif isinstance(data, list):
            regs[tag] = [ref_bit(v) for v in data]
        else:
            regs[tag] = [ref_bit(data)]
    return {k: "".join(v) for k, v in regs.items()}


def ref_bitstrings(shots, strict_names, strict_lengths):
    per_shot = [ref_register_bits(s) for s in shots]  # may raise Reject
    if strict_names and any(set(p) != set(per_shot[0]) for p in per_shot):
        raise Reject("names")
    out: dict[str, list[str]] = {}
    for p in per_shot:
        for reg, bits in p.items():
            out.setdefault(reg, []).append(bits)
    if strict_lengths and any(len({len(b) for b in v}) > 1 for v in out.values()):
        raise Reject("lengths")
    return out


def ref_flat(vals):
    out = []
    for v in vals:
        if isinstance(v, list):
            out.append(ref_flat(v))
        else:
            out.append(ref_bit(v))
    return "".join(out)


def ref_collated_counts(shots):
    c = Counter()
    for s in shots:
        per_tag: dict[str, list] = {}
        for tag, data in s:
            per_tag.setdefault(tag, []).append(data)
        c[tuple((t, ref_flat(vs)) for t, vs in per_tag.items())] += 1
    return c


def outcome(fn, *a, **kw):
    try:
        return ("ok", fn(*a, **kw))
    except ValueError as e:
        return ("ValueError", type(e).__name__, str(e))


def ref_outcome(fn, *a, **kw):
    try:
        return ("ok", fn(*a, **kw))
    except Reject:
        return ("ValueError",)


def same(got, want):
    return got[0] == want[0] and (got[0] != "ok" or got[1] == want[1])


NAMES = ["a", "b", "c_1", "reg"]
BAD = [2, -1, 1.0, 0.0, 0.5, "1", None, [0]]


def rand_bit(rng):
    return rng.choice([0, 1, True, False])


def rand_nested(rng, depth=0):
    if depth > 2 or rng.random() < 0.6:
        return rand_bit(rng)
    return [rand_nested(rng, depth + 1) for _ in range(rng.randrange(0, 4))]


def rand_shot(rng, p_bad):
    entries = []
    for _ in range(rng.randrange(0, 9)):
        name = rng.choice(NAMES)
        if rng.random() < 0.5:
            tag, val = f"{name}[{rng.randrange(0, 7)}]", rand_bit(rng)
            if rng.random() < p_bad:
                val = rng.choice(BAD)
        else:
            tag = name
            if rng.random() < 0.3:
                val = rand_bit(rng)
            else:
                val = [rand_bit(rng) for _ in range(rng.randrange(0, 6))]
            if rng.random() < p_bad:
                val = rng.choice(BAD[:-1] + [[1, 2], [0, [1]], [0.0]])
        entries.append((tag, val))
    return entries


def rand_collate_shot(rng, p_bad):
    entries = []
    for _ in range(rng.randrange(0, 7)):
        tag = rng.choice([*NAMES, "a[1]", "b[0]"])
        val = rand_nested(rng)
        if rng.random() < p_bad:
            val = rng.choice([2, 1.0, [0, [1, 2.5]], "0"])
        entries.append((tag, val))
    return entries


def check_all():
    from hugr.qsystem.result import QsysResult, QsysShot

    fails = 0

    def expect(cond, what):
        nonlocal fails
        if not cond:
            fails += 1
            print("MISMATCH:", what)

    # --- hand-written histories -------------------------------------------------
    hand = [
        [],
        [("c[0]", 1), ("c[1]", 0), ("c[3]", 1), ("d", [1, 0, 1, 0]), ("x[5]", 1), ("x", 0)],
        [("r", [1, 1, 1]), ("r[5]", True), ("r[0]", False)],  # whole, then grow by index
        [("r[2]", 1), ("r", [0]), ("r[1]", 1)],  # indexed, overwrite whole, grow again
        [("r", 1), ("r", []), ("q[0]", 0), ("q[0]", 1), ("q[0]", False)],
        [("r[3]", 1), ("r[3]", 0)],
        [("r", True), ("s", [True, False, 1, 0])],
        [("Upper[1]", 1)],  # not of the form name[n]: overwrites register "Upper[1]"
        [("r[2]", 2)],
        [("r", [0, 1.0])],
        [("r[0]", [1])],
        [("r", [[1]])],
        [("r", 0.0)],
    ]
    for entries in hand:
        got = outcome(QsysShot(entries).to_register_bits)
        want = ref_outcome(ref_register_bits, entries)
        expect(same(got, want), f"to_register_bits {entries}: {got} vs {want}")
        if got[0] == "ok":
            expect(
                all(ch in "01" for s in got[1].values() for ch in s)
                and all(type(s) is str for s in got[1].values()),
                f"characters {got}",
            )

    # appending entry by entry gives the same as constructing at once
    sh = QsysShot()
    for t, v in hand[1]:
        sh.append(t, v)
    expect(sh.to_register_bits() == {"c": "1001", "d": "1010", "x": "0"}, "append")
    expect(sh.to_register_bits() == sh.to_register_bits(), "repeatable")
    sh.append("x[2]", 1)  # mutate after a conversion: conversion must follow
    expect(sh.to_register_bits()["x"] == "001", "conversion after further append")

    # --- random histories -------------------------------------------------------
    rng = random.Random(19)
    n_ok = n_rej = 0
    for _ in range(3000):
        entries = rand_shot(rng, rng.choice([0.0, 0.0, 0.05]))
        got = outcome(QsysShot(entries).to_register_bits)
        want = ref_outcome(ref_register_bits, entries)
        expect(same(got, want), f"to_register_bits {entries}: {got} vs {want}")
        if got[0] == "ok":
            n_ok += 1
            expect(all(ch in "01" for s in got[1].values() for ch in s), "chars")
        else:
            n_rej += 1

    n_multi_ok = n_multi_rej = 0
    for _ in range(1500):
        p_bad = rng.choice([0.0, 0.0, 0.0, 0.03])
        if rng.random() < 0.4:
            # shots with equal register sets / lengths so that strict modes succeed
            regs = rng.sample(NAMES, rng.randrange(1, 4))
            lens = {r: rng.randrange(0, 5) for r in regs}
            shots = []
            for _ in range(rng.randrange(0, 5)):
                order = regs[:]
                rng.shuffle(order)
                e = [(r, [rand_bit(rng) for _ in range(lens[r])]) for r in order]
                for r in order:
                    if lens[r] and rng.random() < 0.5:
                        e.append((f"{r}[{rng.randrange(lens[r])}]", rand_bit(rng)))
                if rng.random() < 0.15:
                    e.append((rng.choice(NAMES), [1, 0, 1, 1, 0, 1]))
                shots.append(e)
        else:
            shots = [rand_shot(rng, p_bad) for _ in range(rng.randrange(0, 5))]
        for sn in (False, True):
            for sl in (False, True):
                res = QsysResult(shots)
                got = outcome(res.register_bitstrings, strict_names=sn, strict_lengths=sl)
                want = ref_outcome(ref_bitstrings, shots, sn, sl)
                expect(same(got, want), f"bitstrings {shots} {sn} {sl}: {got} vs {want}")
                gotc = outcome(res.register_counts, strict_names=sn, strict_lengths=sl)
                if want[0] == "ok":
                    wantc = ("ok", {r: Counter(v) for r, v in want[1].items()})
                    n_multi_ok += 1
                else:
                    wantc = want
                    n_multi_rej += 1
                expect(same(gotc, wantc), f"counts {shots} {sn} {sl}: {gotc} vs {wantc}")
                if gotc[0] == "ok":
                    expect(
                        all(type(c) is Counter for c in gotc[1].values()), "Counter type"
                    )

    n_col_ok = n_col_rej = 0
    for _ in range(1500):
        shots = [
            rand_collate_shot(rng, rng.choice([0.0, 0.0, 0.04]))
            for _ in range(rng.randrange(0, 5))
        ]
        res = QsysResult(shots)
        got = outcome(res.collated_counts)
        want = ref_outcome(ref_collated_counts, shots)
        expect(same(got, want), f"collated_counts {shots}: {got} vs {want}")
        if got[0] == "ok":
            n_col_ok += 1
        else:
            n_col_rej += 1
        # collate_tags / collated_shots: per tag all values in entry order
        for s, d in zip(shots, res.collated_shots(), strict=True):
            ref: dict[str, list] = {}
            for t, v in s:
                ref.setdefault(t, []).append(v)
            expect(d == ref and QsysShot(s).collate_tags() == ref, f"collate_tags {s}")

    # mixed construction: QsysShot objects and plain iterables of entries
    mixed = QsysResult([QsysShot([("a", [1, 0])]), [("a", [0, 0])], iter([("a[1]", 1)])])
    expect(
        mixed.register_bitstrings() == {"a": ["10", "00", "01"]}
        and mixed.register_bitstrings(strict_names=True, strict_lengths=True)
        == {"a": ["10", "00", "01"]},
        "mixed construction",
    )
    with warnings.catch_warnings():
        warnings.simplefilter("ignore")
        from hugr.qsystem.result import HResult, HShots

        expect(
            HShots([HResult([("z[1]", 1)])]).register_counts() == {"z": Counter({"01": 1})},
            "deprecated aliases",
        )

    print(
        f"single shots: {n_ok} converted, {n_rej} rejected; "
        f"multi-shot: {n_multi_ok} converted, {n_multi_rej} rejected; "
        f"collated: {n_col_ok} converted, {n_col_rej} rejected"
    )
    return fails


def extras():
    """Nothing observable is meant to change; show the internals in use."""
    import hugr.qsystem.result as R

    if hasattr(R, "_split_tag"):
        print("tree: CHANGED (tag parsing memoised):", R._split_tag.cache_info())
    else:
        print("tree: clean")
    deep: list = [1]
    for _ in range(50):
        deep = [0, deep, 1]
    got = R.QsysResult([[("t", deep)]]).collated_counts()
    assert got == Counter({(("t", "0" * 50 + "1" + "1" * 50),): 1}), got


if __name__ == "__main__":
    fails = check_all()
    extras()
    if fails:
        print("FAIL", fails)
        raise SystemExit(1)
    print("PASS")
