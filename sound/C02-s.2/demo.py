"""C02 demo: JSON round trip of a HUGR is lossless and a fixed point.

Run: PYTHONPATH=/tmp/sf-C02/hugr-py/src /venv/bin/python demo.py
Prints PASS and exits 0 when the property holds on every program below.
"""

from __future__ import annotations

import json
import sys
from collections import Counter

import hugr.ops as ops
import hugr.tys as tys
import hugr.val as val
from hugr.build.cfg import Cfg
from hugr.build.dfg import Dfg
from hugr.build.function import Module
from hugr.hugr import Hugr
from hugr.hugr.base import _order_port_offset
from hugr.hugr.node_port import Direction
from hugr.std.int import INT_T, DivMod, IntVal
from hugr.std.logic import Not

# --------------------------------------------------------------------------
# the property
# --------------------------------------------------------------------------


def _enc_op(h: Hugr, n) -> str:
    """Encoded form of the operation of a node, parent field neutralised."""
    d = h[n].op._to_serial(n).model_dump(mode="json")
    d["parent"] = None
    return json.dumps(d, sort_keys=True)


def _offset(h: Hugr, p) -> int:
    """A port as the format names it: order ports (-1) get the offset after
    the value ports (that is how they are written and how they come back)."""
    if p.offset >= 0:
        return p.offset
    off = _order_port_offset(h[p.node].op, p.direction)
    if off is None:
        off = h.num_ports(p.node, p.direction)
    return off


def _canon(h: Hugr):
    """Observable structure, with nodes named by their path from the root
    (sequence of child positions): independent of the node numbering."""
    name = {h.root: ()}
    todo = [h.root]
    while todo:
        n = todo.pop()
        for i, c in enumerate(h.children(n)):
            name[c] = (*name[n], i)
            todo.append(c)
    assert len(name) == h.num_nodes(), "every live node hangs under the root"
    ops_ = {name[n]: _enc_op(h, n) for n in name}
    meta = {
        name[n]: json.dumps(h[n].metadata, sort_keys=True) for n in name
    }
    links = Counter(
        (name[s.node], _offset(h, s), name[d.node], _offset(h, d))
        for s, d in h.links()
    )
    # the same thing seen port by port
    per_port = Counter()
    for n in name:
        for direction in (Direction.INCOMING, Direction.OUTGOING):
            for off in range(-1, h.num_ports(n, direction)):
                p = n.port(off, direction)
                for q in h.linked_ports(p):
                    per_port[
                        (name[n], direction.name, _offset(h, p), name[q.node],
                         _offset(h, q))
                    ] += 1
    return sorted(name.values()), ops_, meta, links, per_port


def check(label: str, h: Hugr) -> dict:
    j1 = h.to_json()
    RAW[label] = j1
    h2 = Hugr.load_json(j1)
    j2 = h2.to_json()
    d1, d2 = json.loads(j1), json.loads(j2)
    assert d1 == d2, f"{label}: reload does not serialize to the same document"
    h3 = Hugr.load_json(j2)
    assert json.loads(h3.to_json()) == d2, f"{label}: not a fixed point"
    a, b = _canon(h), _canon(h2)
    for what, x, y in zip(
        ("hierarchy", "operations", "metadata", "links", "links per port"),
        a, b, strict=True,
    ):
        assert x == y, f"{label}: {what} differ after the round trip"
    assert len(d1["nodes"]) == h.num_nodes()
    assert sum(a[3].values()) == len(d1["edges"])
    return d1


# --------------------------------------------------------------------------
# programs: builders followed by add / delete / insert histories
# --------------------------------------------------------------------------

RAW: dict[str, str] = {}

META = {
    "name": "näme ☃",
    "": None,
    "nested": {"a": [1, 2.5, -3e10, True, None, {"b": []}], "c": {}},
    "list": [[], [[]], "x"],
    "int": 2**40,
}


def p_simple() -> Hugr:
    h = Dfg(tys.Bool, tys.Qubit)
    h.metadata["name"] = "simple"
    h.metadata["extra"] = META
    a, q = h.inputs()
    n = h.add_op(Not, a, metadata={"k": [1, {"z": None}]})
    h.set_outputs(n, q, n)  # two links on one out port
    return h.hugr


def p_nested_order() -> Hugr:
    h = Dfg(tys.Bool, tys.Bool)
    a, b = h.inputs()
    with h.add_nested() as nested:
        nt = nested.add(Not(a))  # inter-graph edge -> order link
        nested.set_outputs(nt)
    t = h.add(ops.MakeTuple()(nested, b))
    x, y = h.add(ops.UnpackTuple()(t))
    h.add_state_order(h.input_node, h.output_node)
    h.set_outputs(x, y)
    return h.hugr


def p_module_poly() -> Hugr:
    mod = Module()
    f_id = mod.declare_function(
        "id",
        tys.PolyFuncType(
            [tys.TypeTypeParam(tys.TypeBound.Any), tys.BoundedNatParam(5)],
            tys.FunctionType.endo([tys.Variable(0, tys.TypeBound.Any)]),
        ),
    )
    mod.add_alias_defn("my_int", INT_T)
    mod.add_alias_decl("my_bool", tys.TypeBound.Copyable)
    g = mod.define_function("g", [tys.Qubit])
    g.set_outputs(g.input_node[0])
    f_main = mod.define_main([tys.Qubit])
    q = f_main.input_node[0]
    inst = tys.FunctionType.endo([tys.Qubit])
    targs = [tys.Qubit.type_arg(), tys.BoundedNatArg(3)]
    c1 = f_main.call(f_id, q, instantiation=inst, type_args=targs)
    ld = f_main.load_function(f_id, instantiation=inst, type_args=targs)
    c2 = f_main.add(ops.CallIndirect()(ld, c1))
    c3 = f_main.call(g, c2)
    f_main.add_state_order(c1, c3)
    f_main.add_state_order(c1, f_main.output_node)
    f_main.set_outputs(c3)
    mod.hugr[f_main.parent_node].metadata["doc"] = "main \"fn\"\n"
    return mod.hugr


def p_consts() -> Hugr:
    inner = Dfg(tys.Qubit)
    inner.set_outputs(inner.add(ops.Noop()(inner.input_node[0])))
    inner.hugr[inner.input_node].metadata["inner"] = [1, 2]
    outer_fn = Dfg(tys.Qubit)
    fv = outer_fn.load(val.Function(inner.hugr))  # nested function constant
    outer_fn.set_outputs(
        outer_fn.add(ops.CallIndirect()(fv, outer_fn.input_node[0]))[0]
    )
    d = Dfg(INT_T, INT_T)
    a, b = d.inputs()
    q, r = d.add(DivMod(a, b))
    s = d.load(
        val.Sum(1, tys.Sum([[INT_T], [tys.Bool, INT_T]]), [val.TRUE, IntVal(34)])
    )
    t = d.load(val.Tuple(val.TRUE, IntVal(23), val.Function(outer_fn.hugr)))
    d.add_op(ops.Some(tys.Bool), d.load(val.FALSE))
    d.set_outputs(q, r, s, t)
    return d.hugr


def p_control() -> Hugr:
    either = tys.Either([tys.Qubit], [tys.Qubit, INT_T])
    h = Dfg(tys.Qubit)
    (q,) = h.inputs()
    # loop passes qubit to itself, and a bool as in-out
    with h.add_tail_loop([q], [h.load(val.TRUE)]) as tl:
        q, b = tl.inputs()
        with tl.add_if(b, q) as if_:
            (q,) = if_.inputs()
            if_.set_outputs(if_.add(ops.Continue(either)(q)))
        with if_.add_else() as else_:
            (q,) = else_.inputs()
            else_.set_outputs(
                else_.add(ops.Break(either)(q, else_.load(IntVal(1))))
            )
        tl.set_loop_outputs(else_.conditional_node, b)
    tagged = h.add(ops.Left(either)(tl[0]))
    with h.add_conditional(tagged, tl[2]) as cond:
        with cond.add_case(1) as case1:  # cases added out of order
            q, _i, b = case1.inputs()
            case1.set_outputs(q, b)
        with cond.add_case(0) as case0:
            q, b = case0.inputs()
            case0.set_outputs(q, b)
    h.set_outputs(*cond[:2], tl[1])
    return h.hugr


def p_cfg() -> Hugr:
    cfg = Cfg(tys.Bool, tys.Unit, INT_T)
    with cfg.add_entry() as entry:
        b, u, i = entry.inputs()
        entry.set_block_outputs(b, i)
    # entry dominates both middles: Unit used as inter-graph value
    with cfg.add_successor(entry[0]) as middle_1:
        middle_1.set_block_outputs(u, *middle_1.inputs())
    with cfg.add_successor(entry[1]) as middle_2:
        middle_2.set_block_outputs(u, *middle_2.inputs())
    cfg.branch_exit(middle_1[0])
    cfg.branch_exit(middle_2[0])
    outer = Dfg(tys.Bool, tys.Unit, INT_T)
    n = outer.insert_cfg(cfg, *outer.inputs())
    outer.set_outputs(n)
    return outer.hugr


def p_history_reuse() -> Hugr:
    """Deleting and adding: freed indices reused under other parents, so that
    increasing index is no longer parents-first / child order."""
    h = Hugr(ops.DFG([tys.Bool], [tys.Bool]))
    a = h.add_node(Not, num_outs=1, metadata={"n": "a"})
    b = h.add_node(
        ops.DFG([tys.Bool], [tys.Bool]), num_outs=1, metadata={"n": "b"}
    )
    c = h.add_node(Not, num_outs=1)
    d = h.add_node(Not, b, num_outs=1, metadata={"n": "d"})
    e = h.add_node(Not, b, num_outs=1)
    h.add_link(a.out(0), c.inp(0))
    h.add_link(a.out(0), d.inp(0))
    h.add_link(a.out(0), c.inp(0))  # parallel link, same two ports
    h.add_link(d.out(0), e.inp(0))
    h.add_order_link(a, c)
    h.add_order_link(a, b)
    h.delete_node(a)  # index 1 free, all its links go
    h.delete_node(c)  # index 3 free
    f = h.add_node(Not, b, num_outs=1, metadata={"n": "f"})  # reuses 3 under b
    g = h.add_node(ops.DFG([], []), f, metadata={"n": "g"})  # reuses 1, deep
    k = h.add_node(Not, g, num_outs=1)
    h.add_link(e.out(0), f.inp(0))
    h.add_link(f.out(0), k.inp(0))
    h.add_link(f.out(0), k.inp(0))
    h.add_order_link(e, f)
    h.delete_link(d.out(0), e.inp(0))
    h.add_link(d.out(0), e.inp(2))
    return h


def p_history_gaps() -> Hugr:
    """Holes in the index range at serialization time; links deleted from the
    middle of a multi-link port; a node re-added after its deletion."""
    dfg = Dfg(tys.Bool)
    (a,) = dfg.inputs()
    ns = [dfg.add_op(Not, a, metadata={"i": i}) for i in range(6)]
    dfg.set_outputs(ns[5], ns[0], ns[3])
    h = dfg.hugr
    h.delete_link(a, ns[2].inp(0))
    h.delete_node(ns[1])
    h.delete_node(ns[4])
    h.add_order_link(ns[0], ns[2])
    h.add_order_link(ns[0], ns[3])
    h.add_order_link(ns[0], ns[2])  # no duplicate is made
    m = h.add_node(Not, metadata={"again": True})  # takes a freed index
    h.add_link(ns[5].out(0), m.inp(0))
    h.delete_node(m)  # and leaves a hole again
    return h


def p_history_insert() -> Hugr:
    """insert_hugr of a HUGR that itself has holes and reused indices, below a
    node of a HUGR with holes."""
    host = p_history_gaps()
    guest = p_history_reuse()
    mapping = host.insert_hugr(guest, host.root)
    other = p_nested_order()
    mapping2 = host.insert_hugr(other, mapping[guest.root])
    host.add_link(mapping[guest.root].out(0), mapping2[other.root].inp(0))
    host.delete_node(mapping2[other.children(other.root)[-1]])
    host.insert_hugr(p_simple(), host.root)
    return host


def p_roundtripped() -> Hugr:
    """A loaded HUGR, mutated further."""
    h = Hugr.load_json(p_module_poly().to_json())
    last = h.children(h.root)[-1]
    kids = h.children(last)
    h.delete_node(kids[-1])
    h.add_node(ops.Noop(tys.Qubit), last, num_outs=1, metadata={"late": 1})
    return h


PROGRAMS = [
    p_simple,
    p_nested_order,
    p_module_poly,
    p_consts,
    p_control,
    p_cfg,
    p_history_reuse,
    p_history_gaps,
    p_history_insert,
    p_roundtripped,
]


def main() -> int:
    docs = {}
    for prog in PROGRAMS:
        doc = check(prog.__name__, prog())
        docs[prog.__name__] = doc
        print(
            f"ok   {prog.__name__:18} nodes={len(doc['nodes']):3} "
            f"edges={len(doc['edges']):3}"
        )
    extra(docs)
    print("PASS")
    return 0


def digest(docs: dict) -> str:
    import hashlib

    return hashlib.sha256(json.dumps(docs, sort_keys=True).encode()).hexdigest()[:16]


def extra(docs: dict) -> None:
    """What change 2 makes visible - none of it is something C02 speaks of."""
    import io
    import logging

    h = p_nested_order()
    print("repr(Hugr)          :", repr(h)[:100] + ("..." if len(repr(h)) > 100 else ""))
    print("Hugr.num_links      :", h.num_links() if hasattr(h, "num_links") else "absent")

    # ports the wrong way round: violates the documented parameter types
    scratch = p_simple()
    n1, n2 = scratch.children()[:2]
    try:
        scratch.add_link(n2.inp(0), n1.out(0))  # type: ignore[arg-type]
        print("add_link(InPort, OutPort): accepted silently")
    except Exception as e:  # noqa: BLE001
        print(f"add_link(InPort, OutPort): {type(e).__name__}: {e}")

    # a document no HUGR serializes to
    try:
        Hugr.load_json('{"version": "live", "nodes": [], "edges": []}')
        print("load of empty document: accepted")
    except Exception as e:  # noqa: BLE001
        print(f"load of empty document: {type(e).__name__}: {e}")

    # log output
    buf = io.StringIO()
    handler = logging.StreamHandler(buf)
    log = logging.getLogger("hugr")
    log.addHandler(handler)
    log.setLevel(logging.DEBUG)
    try:
        Hugr.load_json(p_cfg().to_json())
    finally:
        log.removeHandler(handler)
        log.setLevel(logging.NOTSET)
    print("log records at DEBUG:", buf.getvalue().strip().splitlines() or "none")
    # and the documents themselves are what they were
    import hashlib

    text = "\n".join(RAW[k] for k in sorted(RAW))
    print("digest of all JSON texts:", hashlib.sha256(text.encode()).hexdigest()[:16])


if __name__ == "__main__":
    sys.exit(main())
