"""C18 demo: the bidirectional map stays a bijection under every operation sequence.

Model-based check: a reference model (a plain set of pairs) is driven with the
same operation sequence as hugr.utils.BiMap; after every step all clauses of the
property are compared.  Keys and values include the falsy 0, "" and ().

Run: PYTHONPATH=/tmp/sf-C18/hugr-py/src /venv/bin/python demo.py
"""

import hashlib
import itertools
import random
import sys

LEFTS = [0, "", (), "a", 7, (0,)]
RIGHTS = [0, "", (), "x", 9, ("",)]


class Model:
    """Reference: a set of (left, right) pairs."""

    def __init__(self, pairs=()):
        self.pairs = set(pairs)

    def insert(self, left, right):
        self.pairs = {(a, b) for (a, b) in self.pairs if a != left and b != right}
        self.pairs.add((left, right))

    def has_left(self, left):
        return any(a == left for a, _ in self.pairs)

    def has_right(self, right):
        return any(b == right for _, b in self.pairs)

    def delete_left(self, left):
        self.pairs = {(a, b) for (a, b) in self.pairs if a != left}

    def delete_right(self, right):
        self.pairs = {(a, b) for (a, b) in self.pairs if b != right}


DIGEST = hashlib.sha256()


def check(bm, model, where):
    pairs = model.pairs
    # not part of the property: fingerprint of the exact internal order, printed
    # only to show that this restructuring is behaviour-identical
    DIGEST.update(repr((list(bm.fwd.items()), list(bm.bck.items()), repr(bm))).encode())
    assert set(bm.fwd.items()) == pairs, (where, "fwd", bm.fwd, pairs)
    assert set((a, b) for b, a in bm.bck.items()) == pairs, (where, "bck", bm.bck)
    assert len(bm.fwd) == len(bm.bck) == len(pairs), (where, "dict sizes")
    assert len(bm) == len(pairs), (where, "len")
    it = list(bm)
    assert len(it) == len(set(it)) == len(pairs), (where, "iter dup", it)
    assert set(it) == {a for a, _ in pairs}, (where, "iter", it)
    its = list(bm.items())
    assert len(its) == len(pairs) and set(its) == pairs, (where, "items", its)
    assert set(bm.keys()) == {a for a, _ in pairs}, (where, "keys")
    assert set(bm.values()) == {b for _, b in pairs}, (where, "values")
    for left in LEFTS:
        exp = [b for a, b in pairs if a == left]
        if exp:
            assert bm[left] == exp[0], (where, "getitem", left)
            assert bm.get_right(left) == exp[0], (where, "get_right", left)
            assert left in bm, (where, "contains", left)
            assert bm.get_left(bm[left]) == left, (where, "roundtrip", left)
        else:
            assert bm.get_right(left) is None, (where, "get_right absent", left)
            assert left not in bm, (where, "contains absent", left)
            try:
                bm[left]
            except KeyError:
                pass
            else:
                raise AssertionError((where, "getitem absent", left))
    for right in RIGHTS:
        exp = [a for a, b in pairs if b == right]
        if exp:
            assert bm.get_left(right) == exp[0], (where, "get_left", right)
            assert bm.get_right(bm.get_left(right)) == right, (where, "roundtrip r")
        else:
            assert bm.get_left(right) is None, (where, "get_left absent", right)


def expect_keyerror(fn, where):
    try:
        fn()
    except KeyError:
        return
    raise AssertionError((where, "no KeyError"))


def apply(bm, model, op, x, y, where):
    if op == "insert_left":
        bm.insert_left(x, y)
        model.insert(x, y)
    elif op == "insert_right":
        bm.insert_right(y, x)
        model.insert(x, y)
    elif op == "setitem":
        bm[x] = y
        model.insert(x, y)
    elif op == "delete_left":
        if model.has_left(x):
            bm.delete_left(x)
            model.delete_left(x)
        else:
            expect_keyerror(lambda: bm.delete_left(x), where)
    elif op == "delitem":
        if model.has_left(x):
            del bm[x]
            model.delete_left(x)
        else:
            def f():
                del bm[x]
            expect_keyerror(f, where)
    elif op == "delete_right":
        if model.has_right(y):
            bm.delete_right(y)
            model.delete_right(y)
        else:
            expect_keyerror(lambda: bm.delete_right(y), where)
    else:
        raise ValueError(op)


OPS = ["insert_left", "insert_right", "setitem", "delete_left", "delitem", "delete_right"]


def run_sequences(BiMap):
    n_steps = 0
    # 1. hand-written histories around displacement with falsy keys/values
    histories = [
        [("insert_left", 0, ""), ("insert_left", "", 0), ("insert_right", (), 0),
         ("setitem", 0, 0), ("delete_right", 0, 0), ("delete_left", 0, 0)],
        [("setitem", (), ()), ("setitem", (), ()), ("insert_right", "", ()),
         ("insert_left", 0, ()), ("delitem", 0, 0), ("delitem", 0, 0)],
        [("insert_left", "a", 0), ("insert_left", 0, "x"), ("insert_left", "a", "x"),
         ("delete_right", 0, 0), ("delete_right", 0, "x"), ("delete_left", "a", 0)],
        [("insert_left", 0, 0), ("insert_left", "", ""), ("insert_left", (), ()),
         ("insert_right", 0, ""), ("insert_right", "", ()), ("insert_right", (), 0)],
    ]
    for hi, hist in enumerate(histories):
        bm, model = BiMap(), Model()
        for si, (op, x, y) in enumerate(hist):
            where = ("hist", hi, si, op, x, y)
            apply(bm, model, op, x, y, where)
            check(bm, model, where)
            n_steps += 1
    # 2. exhaustive short sequences over a tiny falsy-only domain
    small_l, small_r = [0, ""], [0, ()]
    steps = [(op, x, y) for op in OPS for x in small_l for y in small_r]
    for seq in itertools.product(steps, repeat=3):
        bm, model = BiMap(), Model()
        for si, (op, x, y) in enumerate(seq):
            where = ("exh", seq, si)
            apply(bm, model, op, x, y, where)
            check(bm, model, where)
            n_steps += 1
    # 3. long random sequences, started from a non-empty injective mapping too
    rng = random.Random(18)
    for trial in range(300):
        if trial % 2:
            k = rng.randrange(0, 5)
            init = dict(zip(rng.sample(LEFTS, k), rng.sample(RIGHTS, k)))
            bm, model = BiMap(init), Model(init.items())
            check(bm, model, ("init", trial))
        else:
            bm, model = BiMap(), Model()
        for si in range(60):
            op = rng.choice(OPS)
            x, y = rng.choice(LEFTS), rng.choice(RIGHTS)
            where = ("rnd", trial, si, op, x, y)
            apply(bm, model, op, x, y, where)
            check(bm, model, where)
            n_steps += 1
    return n_steps


def run_construction(BiMap, NotBijection):
    for bad in [{"a": 0, "b": 0}, {0: "", "": ""}, {0: (), "": "x", (): ()},
                {1: 0, 2: 1, 3: 2, 4: 0}]:
        try:
            BiMap(bad)
        except NotBijection:
            pass
        else:
            raise AssertionError(("non-injective accepted", bad))
    for good in [{}, {0: 0}, {0: "", "": 0, (): ()}, {"a": 1, "b": 2}]:
        bm = BiMap(good)
        check(bm, Model(good.items()), ("good init", good))
        # the map does not alias the caller's dict
        good_copy = dict(good)
        bm.insert_left("zz", "zz")
        assert good == good_copy


def main():
    from hugr.utils import BiMap, NotBijection

    n = run_sequences(BiMap)
    run_construction(BiMap, NotBijection)
    print(f"checked {n} steps against the reference model")
    print("trace fingerprint (informational):", DIGEST.hexdigest()[:16])
    print("PASS")
    return 0


if __name__ == "__main__":
    sys.exit(main())
