"""C08 demo: inserting a HUGR embeds it isomorphically and disturbs nothing else.

Run with:  PYTHONPATH=/tmp/sf-C08/hugr-py/src /venv/bin/python demo.py
Prints PASS and exits 0 when the property holds on every scenario below.
"""

from __future__ import annotations

import sys
from collections import Counter
from copy import deepcopy

from hugr import ops, tys, val
from hugr.build.cfg import Cfg
from hugr.build.cond_loop import Conditional, TailLoop
from hugr.build.dfg import Dfg
from hugr.hugr import Hugr
from hugr.hugr.node_port import Node
from hugr.std.logic import Not

FAILURES: list[str] = []
# everything observable about every result, to compare the two trees
TRACE: list[str] = []


def full_state(h: Hugr) -> str:
    return repr(
        (
            [
                (n.idx, d.op, d.parent, d.children, d.metadata,
                 h.num_in_ports(n), h.num_out_ports(n), n._num_out_ports)
                for n, d in h.nodes()
            ],
            list(h.links()),
            [
                (n.idx, off, list(h.linked_ports(n.out(off))), list(h.linked_ports(n.inp(off))))
                for n in h
                for off in range(-1, max(h.num_out_ports(n), h.num_in_ports(n)))
            ],
            h._free_nodes,
            h.root,
        )
    )


def check(cond: bool, what: str) -> None:
    if not cond:
        FAILURES.append(what)


# --------------------------------------------------------------------------
# an index-based picture of a HUGR, taken through the public API only
# --------------------------------------------------------------------------
def link_multiset(h: Hugr) -> Counter:
    return Counter(
        (s.node.idx, s.offset, d.node.idx, d.offset) for s, d in h.links()
    )


def snapshot(h: Hugr) -> dict:
    nodes = {}
    for n, data in h.nodes():
        nodes[n.idx] = {
            "op": deepcopy(data.op),
            "op_repr": repr(data.op),
            "parent": None if data.parent is None else data.parent.idx,
            "children": [c.idx for c in data.children],
            "metadata": deepcopy(data.metadata),
            "num_out": h.num_out_ports(n),
            "num_in": h.num_in_ports(n),
        }
    return {
        "root": h.root.idx,
        "nodes": nodes,
        "links": link_multiset(h),
        # per-port order of A's links: must survive as a prefix
        "port_lists": {
            (n.idx, off, "out"): [(p.node.idx, p.offset) for p in h.linked_ports(n.out(off))]
            for n in h
            for off in range(-1, h.num_out_ports(n))
        },
    }


def check_insertion(
    label: str,
    a: Hugr,
    b: Hugr,
    a_before: dict,
    b_before: dict,
    mapping: dict[Node, Node],
    parent: Node,
    wires: list | None = None,
) -> None:
    wires = wires or []
    TRACE.append(
        repr((label, list(mapping.items()), [v._num_out_ports for v in mapping.values()]))
        + full_state(a)
        + full_state(b)
    )
    b_after = snapshot(b)
    a_after = snapshot(a)

    # --- B itself is not modified
    check(b_after["root"] == b_before["root"], f"{label}: B root changed")
    check(b_after["links"] == b_before["links"], f"{label}: B links changed")
    check(
        b_after["nodes"].keys() == b_before["nodes"].keys(),
        f"{label}: B node set changed",
    )
    for i, d in b_before["nodes"].items():
        e = b_after["nodes"].get(i)
        check(e is not None and e == d, f"{label}: B node {i} changed")

    # --- mapping is a bijection from B's nodes onto fresh nodes of A
    check(
        {k.idx for k in mapping} == set(b_before["nodes"]),
        f"{label}: mapping keys are not exactly B's nodes",
    )
    img = [v.idx for v in mapping.values()]
    check(len(set(img)) == len(img), f"{label}: mapping not injective")
    check(
        not (set(img) & set(a_before["nodes"])),
        f"{label}: image overlaps nodes A already had",
    )
    check(
        set(a_after["nodes"]) == set(a_before["nodes"]) | set(img),
        f"{label}: A's node set is not old nodes + image",
    )
    check(len(a) == len(a_before["nodes"]) + len(b_before["nodes"]), f"{label}: len(A)")
    m = {k.idx: v.idx for k, v in mapping.items()}

    # --- operations, hierarchy with child order, metadata, out port counts
    for bi, bd in b_before["nodes"].items():
        ai = m[bi]
        ad = a_after["nodes"][ai]
        check(ad["op"] == bd["op"], f"{label}: op of image of B node {bi}")
        if bd["parent"] is None:
            check(ad["parent"] == parent.idx, f"{label}: image of root not under parent")
        else:
            check(ad["parent"] == m[bd["parent"]], f"{label}: parent of image of {bi}")
        check(
            ad["children"] == [m[c] for c in bd["children"]],
            f"{label}: child order of image of {bi}",
        )
        check(ad["metadata"] == bd["metadata"], f"{label}: metadata of image of {bi}")
        check(ad["num_out"] == bd["num_out"], f"{label}: num_out of image of {bi}")
        # the handle in the mapping reads the same metadata
        for k, v in mapping.items():
            if k.idx == bi:
                check(v.metadata == bd["metadata"], f"{label}: handle metadata {bi}")
                check(
                    v.metadata is not b[k].metadata or not bd["metadata"],
                    f"{label}: metadata dictionary shared with B ({bi})",
                )
    # image of B's root is the LAST child of the requested parent, old ones kept
    check(
        a_after["nodes"][parent.idx]["children"]
        == a_before["nodes"][parent.idx]["children"] + [m[b_before["root"]]],
        f"{label}: children of the insertion parent",
    )

    # --- links: exactly B's links (as a multiset, with offsets), mapped
    mapped_b_links = Counter()
    for (s, so, d, do), k in b_before["links"].items():
        mapped_b_links[(m[s], so, m[d], do)] += k
    new_links = a_after["links"] - a_before["links"]
    wire_links = Counter()
    new_root = m[b_before["root"]]
    for i, w in enumerate(wires):
        p = w.out_port()
        wire_links[(p.node.idx, p.offset, new_root, i)] += 1
    for wl, k in wire_links.items():
        check(new_links[wl] >= k, f"{label}: wire {wl} not attached")
    extra = new_links - mapped_b_links - wire_links
    missing = (mapped_b_links + wire_links) - new_links
    check(not missing, f"{label}: links missing in the image: {dict(missing)}")
    # the only other thing a builder may add is a state order link for a
    # non-local wire (both ports -1); direct insertion adds nothing
    for s, so, d, do in extra:
        check(
            bool(wires) and so == -1 and do == -1,
            f"{label}: unexpected extra link {(s, so, d, do)}",
        )
    # links inside the image are exactly B's links
    inside = Counter(
        {l: k for l, k in a_after["links"].items() if l[0] in img and l[2] in img}
    )
    check(inside == mapped_b_links, f"{label}: links inside the image differ from B's")
    # order links explicitly
    for k, v in mapping.items():
        check(
            Counter(m[x.idx] for x in b.outgoing_order_links(k))
            == Counter(x.idx for x in a.outgoing_order_links(v)),
            f"{label}: outgoing order links of image of {k.idx}",
        )
        check(
            Counter(m[x.idx] for x in b.incoming_order_links(k))
            == Counter(
                x.idx for x in a.incoming_order_links(v) if x.idx in img
            ),
            f"{label}: incoming order links of image of {k.idx}",
        )

    # --- everything A had before is unchanged
    check(a_after["root"] == a_before["root"], f"{label}: A root changed")
    check(
        not (a_before["links"] - a_after["links"]), f"{label}: A lost a link it had"
    )
    for i, d in a_before["nodes"].items():
        e = dict(a_after["nodes"][i])
        d = dict(d)
        if i == parent.idx:
            e["children"] = e["children"][:-1]
        check(e == d, f"{label}: A node {i} changed: {d} -> {e}")
    for key, lst in a_before["port_lists"].items():
        now = a_after["port_lists"][key]
        check(now[: len(lst)] == lst, f"{label}: order of A's links on port {key}")


# --------------------------------------------------------------------------
# inputs
# --------------------------------------------------------------------------
def make_b_dfg() -> Dfg:
    """Dfg with a multi-linked port, an order edge, a nested DFG reached by a
    non-local edge, metadata, and a freed-and-reused node index."""
    d = Dfg(tys.Bool, tys.Bool)
    a, b = d.inputs()
    tmp = d.add(Not(a))  # will be deleted -> free index
    n1 = d.add(Not(a), metadata={"k": [1, 2, {"x": "y"}]})
    n2 = d.add(Not(a))  # a is now linked three times
    d.hugr.delete_node(tmp)
    with d.add_nested(b) as inner:
        (ib,) = inner.inputs()
        x = inner.add(Not(n1))  # non-local edge + order edge n1 -> inner
        y = inner.add(Not(ib))
        inner.set_outputs(x, y)
        inner.parent_node.metadata["inner"] = True
    late = d.add(Not(n2), metadata={"late": 1})  # reuses the freed index
    d.add_state_order(n1, n2)
    d.set_outputs(inner[0], inner[1], late, n1)
    d.hugr[d.hugr.root].metadata["name"] = "B-root"
    return d


def make_b_raw() -> Hugr:
    """A raw HUGR with an unusual root and arbitrary (invalid but legal for the
    data structure) links: the same link twice, a multi-linked in port, order
    links, ports beyond the declared counts, previously deleted nodes."""
    h: Hugr = Hugr(ops.Case([tys.Bool]))
    c0 = h.add_node(ops.Const(val.TRUE), metadata={"m": 0})
    junk = h.add_node(ops.Const(val.FALSE))
    c1 = h.add_node(ops.Const(val.FALSE), num_outs=3, metadata={"m": {"deep": [1]}})
    sub = h.add_node(ops.DFG([tys.Bool]), num_outs=1)
    g1 = h.add_node(ops.Const(val.TRUE), parent=sub)
    g2 = h.add_node(ops.Const(val.TRUE), parent=sub, num_outs=2)
    h.delete_node(junk)
    g3 = h.add_node(ops.Const(val.FALSE), parent=sub)  # reuses index of junk
    h.add_link(c0.out(0), c1.inp(2))
    h.add_link(c0.out(0), c1.inp(2))  # multiplicity 2
    h.add_link(c0.out(0), g1.inp(0))  # non-local
    h.add_link(c1.out(1), g1.inp(0))  # multi-linked in port
    h.add_link(g2.out(1), g3.inp(0))
    h.add_link(g3.out(0), g2.inp(1))
    h.add_link(g2.out(0), c0.inp(4))
    h.add_order_link(c0, c1)
    h.add_order_link(c0, sub)
    h.add_order_link(g1, g3)
    # delete a link in the middle of a multi-linked port and add another one
    h.add_link(c0.out(0), g2.inp(0))
    h.delete_link(c0.out(0), g1.inp(0))
    h.add_link(c0.out(0), g3.inp(3))
    return h


def make_a_module() -> tuple[Hugr, list[Node]]:
    """Module-rooted A with metadata, freed indices and multi-links; returns
    candidate insertion parents."""
    h: Hugr = Hugr()
    f = h.add_node(ops.DFG([tys.Bool]), num_outs=1, metadata={"a": "f"})
    i = h.add_node(ops.Input([tys.Bool]), parent=f, num_outs=1)
    dead1 = h.add_node(ops.Const(val.TRUE), parent=f)
    o = h.add_node(ops.Output([tys.Bool, tys.Bool]), parent=f)
    dead2 = h.add_node(ops.Const(val.TRUE))
    leaf = h.add_node(ops.Const(val.FALSE), metadata={"leaf": True})
    h.add_link(i.out(0), o.inp(0))
    h.add_link(i.out(0), o.inp(1))
    h.add_link(i.out(0), o.inp(1))
    h.add_order_link(i, o)
    h.add_link(dead1.out(0), o.inp(0))
    h.delete_node(dead1)
    h.delete_node(dead2)
    return h, [h.root, f, leaf, o]


def make_a_dfg() -> Dfg:
    d = Dfg(tys.Bool, tys.Bool)
    a, b = d.inputs()
    t = d.add(Not(a))
    n = d.add(Not(a), metadata={"n": 1})
    d.add(Not(b))
    d.hugr.delete_node(t)
    d.add_state_order(d.input_node, n)
    return d


def build_cond(c: Conditional) -> None:
    with c.add_case(0) as c0:
        (x,) = c0.inputs()
        c0.set_outputs(c0.add(Not(x), metadata={"case": 0}))
    with c.add_case(1) as c1:
        (x,) = c1.inputs()
        c1.set_outputs(x)


def build_cfg(cfg: Cfg) -> None:
    with cfg.add_entry() as entry:
        (x,) = entry.inputs()
        entry.set_block_outputs(x, x)
    with cfg.add_successor(entry[0]) as m1:
        m1.set_single_succ_outputs(*m1.inputs())
    with cfg.add_successor(entry[1]) as m2:
        m2.set_single_succ_outputs(m2.add(Not(*m2.inputs())))
    cfg.branch_exit(m1[0])
    cfg.branch_exit(m2[0])  # the exit block's in port is multi-linked


def build_tl(tl: TailLoop) -> None:
    (x,) = tl.inputs()
    tl.set_loop_outputs(tl.add(Not(x), metadata={"tl": "cond"}), x)


# --------------------------------------------------------------------------
# scenarios
# --------------------------------------------------------------------------
def direct(label: str, make_b) -> None:
    a, parents = make_a_module()
    for k, parent in enumerate(parents):
        a, parents2 = make_a_module()
        parent = parents2[k]
        b = make_b()
        a_before, b_before = snapshot(a), snapshot(b)
        mapping = a.insert_hugr(b, parent)
        check_insertion(f"{label}/parent{k}", a, b, a_before, b_before, mapping, parent)
        # a second insertion of the same B next to the first, after a deletion
        leaves = [v for v in mapping.values() if not a[v].children]
        a.delete_node(leaves[len(leaves) // 2])  # frees an index in the middle
        a_before, b_before = snapshot(a), snapshot(b)
        mapping = a.insert_hugr(b, parent)
        check_insertion(f"{label}/parent{k}/again", a, b, a_before, b_before, mapping, parent)
    # default parent
    a, _ = make_a_module()
    b = make_b()
    a_before, b_before = snapshot(a), snapshot(b)
    mapping = a.insert_hugr(b)
    check_insertion(f"{label}/default", a, b, a_before, b_before, mapping, a.root)


def via_builder(label: str, insert, b_hugr: Hugr, a: Dfg, wires: list) -> None:
    """`insert(a)` performs the builder call and returns the new root; the
    mapping is recovered from the new nodes by walking both hierarchies."""
    a_before, b_before = snapshot(a.hugr), snapshot(b_hugr)
    new_root = insert(a)
    mapping: dict[Node, Node] = {}
    stack = [(b_hugr.root, new_root)]
    while stack:
        bn, an = stack.pop()
        mapping[bn] = an
        bc, ac = b_hugr.children(bn), a.hugr.children(an)
        check(len(bc) == len(ac), f"{label}: child count under image of {bn.idx}")
        stack.extend(zip(bc, ac, strict=False))
    check_insertion(
        label, a.hugr, b_hugr, a_before, b_before, mapping, a.parent_node, wires
    )


def builders() -> None:
    # insert_nested, local wires
    a = make_a_dfg()
    b = make_b_dfg()
    x, y = a.inputs()
    via_builder("insert_nested", lambda a: a.insert_nested(b, x, y), b.hugr, a, [x, y])

    # insert_nested into a nested builder with non-local wires
    a = make_a_dfg()
    b = make_b_dfg()
    x, y = a.inputs()
    with a.add_nested() as inner:
        via_builder(
            "insert_nested/nonlocal",
            lambda inner: inner.insert_nested(b, x, y),
            b.hugr,
            inner,
            [x, y],
        )

    # insert_cfg
    a = make_a_dfg()
    cfg = Cfg(tys.Bool)
    build_cfg(cfg)
    x, y = a.inputs()
    via_builder("insert_cfg", lambda a: a.insert_cfg(cfg, y), cfg.hugr, a, [y])

    # insert_conditional
    a = make_a_dfg()
    cond = Conditional(tys.Bool, [tys.Bool])
    build_cond(cond)
    x, y = a.inputs()
    via_builder(
        "insert_conditional",
        lambda a: a.insert_conditional(cond, x, y),
        cond.hugr,
        a,
        [x, y],
    )

    # insert_tail_loop
    a = make_a_dfg()
    tl = TailLoop([], [tys.Bool])
    build_tl(tl)
    x, y = a.inputs()
    via_builder(
        "insert_tail_loop",
        lambda a: a.insert_tail_loop(tl, [], [x]),
        tl.hugr,
        a,
        [x],
    )


def observable() -> None:
    """Things that are allowed to differ between the clean tree and the
    change; printed for information only. None of them is something the
    property talks about: they concern arguments that are no HUGR / no node of
    A, and log output."""
    import hashlib
    import io
    import logging

    digest = hashlib.sha256("\n".join(TRACE).encode()).hexdigest()
    print(f"{len(TRACE)} insertions; digest of all resulting states: {digest[:16]}")

    # 1. a parent that is not a node of A: still a KeyError, nothing recorded
    a, parents = make_a_module()
    leaf = parents[2]
    a.delete_node(leaf)
    for bad in (Node(999), leaf):
        before = full_state(a)
        try:
            a.insert_hugr(make_b_raw(), bad)
            check(False, "insertion under a node that is not in A succeeded")
        except KeyError as e:
            print(f"observable: bad parent {bad}: {type(e).__name__}: {e}")
        check(full_state(a) == before, "failed insertion modified A")

    # 2. something that is no Hugr
    a, _ = make_a_module()
    before = full_state(a)
    try:
        a.insert_hugr(make_b_dfg())  # type: ignore[arg-type]  # a builder
        check(False, "inserting a builder as if it were a Hugr succeeded")
    except (TypeError, AttributeError) as e:
        print(f"observable: insert_hugr(<Dfg builder>): {type(e).__name__}: {e}")
    check(full_state(a) == before, "failed insertion modified A")
    d = make_a_dfg()
    before = full_state(d.hugr)
    try:
        d.insert_nested(make_b_raw())  # type: ignore[arg-type]  # a bare Hugr
        check(False, "insert_nested of a bare Hugr succeeded")
    except (TypeError, AttributeError) as e:
        print(f"observable: insert_nested(<Hugr>): {type(e).__name__}: {e}")
    check(full_state(d.hugr) == before, "failed insertion modified A")

    # 3. log output at DEBUG level
    buf = io.StringIO()
    handler = logging.StreamHandler(buf)
    root = logging.getLogger("hugr")
    root.addHandler(handler)
    root.setLevel(logging.DEBUG)
    try:
        d = make_a_dfg()
        x, y = d.inputs()
        d.insert_nested(make_b_dfg(), x, y)
    finally:
        root.removeHandler(handler)
        root.setLevel(logging.NOTSET)
    lines = buf.getvalue().splitlines()
    print(f"observable: {len(lines)} log line(s) at DEBUG level")
    for line in lines:
        print("    " + line)


def main() -> int:
    direct("raw", make_b_raw)
    direct("dfg", lambda: make_b_dfg().hugr)
    direct("cfg", lambda: (lambda c: (build_cfg(c), c.hugr)[1])(Cfg(tys.Bool)))
    builders()
    observable()
    if FAILURES:
        for f in FAILURES[:40]:
            print("FAIL:", f)
        print(f"FAIL ({len(FAILURES)} checks)")
        return 1
    print("PASS")
    return 0


if __name__ == "__main__":
    sys.exit(main())
