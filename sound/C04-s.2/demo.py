"""Demo for property C04: the HUGR graph store agrees with a sequential
port-multigraph model.

Runs random histories of add_node / add_const / add_link / add_order_link /
delete_link / delete_node / insert_hugr against a plain Python model and
compares every query after every step.  The model does not predict which
index a new node gets (the statement does not fix it); it learns the index
from the handle that the store returns and then demands that it stays stable.

Prints PASS and exits 0 if everything agrees.
"""

from __future__ import annotations

import hashlib
import random
import sys
from collections import Counter

from hugr import ops, val
from hugr.hugr.base import Hugr
from hugr.hugr.node_port import Direction, InPort, Node, OutPort


class Model:
    """A hierarchical port multigraph, kept in the dumbest possible way."""

    def __init__(self, root_idx: int) -> None:
        self.root = root_idx
        self.parent: dict[int, int | None] = {root_idx: None}
        self.children: dict[int, list[int]] = {root_idx: []}
        self.req_outs: dict[int, int] = {root_idx: 0}
        # all links, oldest first: (src node, src offset, dst node, dst offset)
        self.links: list[tuple[int, int, int, int]] = []
        self.dead: set[int] = set()
        # nodes that came in through insert_hugr: the relative order of the
        # links on one of their ports is whatever the inserted HUGR had
        self.inserted: set[int] = set()

    # -- updates ---------------------------------------------------------
    def add_node(self, idx: int, parent: int, req_outs: int | None) -> None:
        assert idx not in self.parent, f"index {idx} of a live node handed out again"
        self.dead.discard(idx)
        self.parent[idx] = parent
        self.children[idx] = []
        self.children[parent].append(idx)
        self.req_outs[idx] = req_outs or 0

    def add_link(self, s: int, so: int, d: int, do: int) -> None:
        self.links.append((s, so, d, do))

    def add_order_link(self, s: int, d: int) -> None:
        if (s, -1, d, -1) not in self.links:
            self.links.append((s, -1, d, -1))

    def delete_link(self, s: int, so: int, d: int, do: int) -> None:
        if (s, so, d, do) in self.links:
            self.links.remove((s, so, d, do))  # the oldest such link

    def delete_node(self, idx: int) -> None:
        assert not self.children[idx]
        par = self.parent.pop(idx)
        self.children[par].remove(idx)
        del self.children[idx]
        del self.req_outs[idx]
        self.links = [l for l in self.links if l[0] != idx and l[2] != idx]
        self.dead.add(idx)
        self.inserted.discard(idx)

    # -- queries ---------------------------------------------------------
    def index(self) -> None:
        """Per-port views of the link list (oldest link first), for one check."""
        self._out: dict[tuple[int, int], list[tuple[int, int]]] = {}
        self._in: dict[tuple[int, int], list[tuple[int, int]]] = {}
        for s, so, d, do in self.links:
            self._out.setdefault((s, so), []).append((d, do))
            self._in.setdefault((d, do), []).append((s, so))

    def out_targets(self, n: int, off: int) -> list[tuple[int, int]]:
        return self._out.get((n, off), [])

    def in_sources(self, n: int, off: int) -> list[tuple[int, int]]:
        return self._in.get((n, off), [])

    def max_out(self, n: int) -> int:
        return max([so for (s, so) in self._out if s == n], default=-1)

    def max_in(self, n: int) -> int:
        return max([do for (d, do) in self._in if d == n], default=-1)


class Mismatch(Exception):
    pass


def expect(cond: bool, what: str) -> None:
    if not cond:
        raise Mismatch(what)


def same_ports(got: list, want: list, ordered: bool, what: str) -> None:
    if ordered:
        expect(got == want, f"{what}: got {got}, model {want}")
    else:
        expect(Counter(got) == Counter(want), f"{what}: got {got}, model {want}")


def check(h: Hugr, m: Model) -> None:
    m.index()
    live = sorted(m.parent)
    it = list(h)
    expect(len(it) == len(set(it)), "node iteration repeats a node")
    expect(sorted(n.idx for n in it) == live, f"iteration {it} vs model {live}")
    expect(len(h) == len(live) == h.num_nodes(), "node count")
    expect(sorted(n.idx for n, _ in h.nodes()) == live, "nodes()")

    for idx in m.dead:
        expect(Node(idx) not in h, f"deleted node {idx} is still reachable")
        try:
            h[Node(idx)]
        except KeyError:
            pass
        else:
            raise Mismatch(f"lookup of deleted node {idx} succeeded")
    try:
        h[Node(10_000)]
    except KeyError:
        pass
    else:
        raise Mismatch("lookup of a node that never existed succeeded")

    got_links = Counter(
        (s.node.idx, s.offset, d.node.idx, d.offset) for s, d in h.links()
    )
    expect(got_links == Counter(m.links), f"links(): {got_links} vs {m.links}")
    for s, so, d, do in got_links:
        expect(s in m.parent and d in m.parent, "a link mentions a deleted node")

    for idx in live:
        n = Node(idx)
        data = h[n]
        par = m.parent[idx]
        expect(
            (data.parent.idx if data.parent is not None else None) == par,
            f"parent of {idx}",
        )
        expect(
            [c.idx for c in h.children(n)] == m.children[idx], f"children of {idx}"
        )
        n_in, n_out = h.num_in_ports(n), h.num_out_ports(n)
        expect(h.num_ports(n, Direction.INCOMING) == n_in, "num_ports in")
        expect(h.num_ports(n, Direction.OUTGOING) == n_out, "num_ports out")
        expect(n_out >= m.max_out(idx) + 1, f"out port count of {idx} too small")
        expect(n_in >= m.max_in(idx) + 1, f"in port count of {idx} too small")
        expect(n_out >= m.req_outs[idx], f"out port count of {idx} below requested")
        ordered = idx not in m.inserted

        # linked_ports from either end, including the order port and one
        # offset beyond the reported count
        for off in range(-1, n_out + 1):
            got = [(p.node.idx, p.offset) for p in h.linked_ports(n.out(off))]
            expect(
                all(isinstance(p, InPort) for p in h.linked_ports(n.out(off))),
                "linked_ports(out) yields in-ports",
            )
            same_ports(got, m.out_targets(idx, off), ordered, f"linked {idx}.out({off})")
        for off in range(-1, n_in + 1):
            got = [(p.node.idx, p.offset) for p in h.linked_ports(n.inp(off))]
            expect(
                all(isinstance(p, OutPort) for p in h.linked_ports(n.inp(off))),
                "linked_ports(in) yields out-ports",
            )
            same_ports(got, m.in_sources(idx, off), ordered, f"linked {idx}.inp({off})")

        # link listings: one entry per port 0..count-1, in port order
        if m.links:
            outs = list(h.outgoing_links(n))
            expect([p.offset for p, _ in outs] == list(range(n_out)), "outgoing ports")
            for p, tgts in outs:
                expect(p.node.idx == idx, "outgoing_links port of another node")
                same_ports(
                    [(t.node.idx, t.offset) for t in tgts],
                    m.out_targets(idx, p.offset),
                    ordered,
                    f"outgoing_links {idx}.{p.offset}",
                )
            ins = list(h.incoming_links(n))
            expect([p.offset for p, _ in ins] == list(range(n_in)), "incoming ports")
            for p, srcs in ins:
                same_ports(
                    [(t.node.idx, t.offset) for t in srcs],
                    m.in_sources(idx, p.offset),
                    ordered,
                    f"incoming_links {idx}.{p.offset}",
                )
            expect(h.num_outgoing(n) == n_out, "num_outgoing")
            expect(h.num_incoming(n) == n_in, "num_incoming")

        same_ports(
            [x.idx for x in h.outgoing_order_links(n)],
            [d for d, _ in m.out_targets(idx, -1)],
            ordered,
            f"outgoing_order_links {idx}",
        )
        same_ports(
            [x.idx for x in h.incoming_order_links(n)],
            [s for s, _ in m.in_sources(idx, -1)],
            ordered,
            f"incoming_order_links {idx}",
        )

    # has_link on every present link and on a sample of absent ones
    present = set(m.links)
    for s, so, d, do in present:
        expect(h.has_link(Node(s).out(so), Node(d).inp(do)), "has_link misses a link")
    for s in live[:4]:
        for d in live[-4:]:
            for so in (-1, 0, 1):
                for do in (-1, 0, 2):
                    expect(
                        h.has_link(Node(s).out(so), Node(d).inp(do))
                        == ((s, so, d, do) in present),
                        f"has_link({s}.{so} -> {d}.{do})",
                    )


OPS = [ops.DFG([]), ops.Module(), ops.Const(val.FALSE)]


def random_history(rng: random.Random, steps: int, allow_insert: bool = True):
    """Run a random history; returns the store and the model."""
    h = Hugr(rng.choice([None, ops.DFG([])]))
    m = Model(h.root.idx)
    handles: dict[int, Node] = {h.root.idx: h.root}
    check(h, m)
    for _ in range(steps):
        live = sorted(m.parent)
        r = rng.random()
        if r < 0.22:
            parent = rng.choice(live)
            if rng.random() < 0.3:
                n = h.add_const(val.TRUE, handles[parent])
                req = None
            else:
                req = rng.choice([None, 0, 1, 2, 4])
                n = h.add_node(rng.choice(OPS), handles[parent], num_outs=req)
            m.add_node(n.idx, parent, req)
            handles[n.idx] = n
        elif r < 0.52:
            s, d = rng.choice(live), rng.choice(live)
            so, do = rng.choice([-1, 0, 0, 1, 2, 5]), rng.choice([-1, 0, 0, 1, 3])
            h.add_link(handles[s].out(so), handles[d].inp(do))
            m.add_link(s, so, d, do)
        elif r < 0.62:
            s, d = rng.choice(live), rng.choice(live)
            h.add_order_link(handles[s], handles[d])
            m.add_order_link(s, d)
        elif r < 0.80:
            if m.links and rng.random() < 0.85:
                s, so, d, do = rng.choice(m.links)
            else:  # most likely not a link at all
                s, d = rng.choice(live), rng.choice(live)
                so, do = rng.choice([-1, 0, 1]), rng.choice([-1, 0, 1])
            h.delete_link(Node(s).out(so), Node(d).inp(do))
            m.delete_link(s, so, d, do)
        elif r < 0.93:
            leaves = [i for i in live if not m.children[i] and i != m.root]
            if leaves:
                i = rng.choice(leaves)
                data = h.delete_node(handles.pop(i))
                expect(data is not None, "delete_node returned nothing")
                m.delete_node(i)
        elif allow_insert:
            sub, sm = random_history(rng, rng.randrange(0, 25), allow_insert=False)
            parent = rng.choice(live)
            mapping = h.insert_hugr(sub, handles[parent])
            expect(
                sorted(k.idx for k in mapping) == sorted(sm.parent),
                "insert_hugr maps exactly the nodes of the inserted HUGR",
            )
            expect(
                len({v.idx for v in mapping.values()}) == len(mapping),
                "insert_hugr mapping is injective",
            )
            tr = {k.idx: v.idx for k, v in mapping.items()}
            # parents before children, siblings in child order
            order = [sm.root]
            for x in order:
                order.extend(sm.children[x])
            for x in order:
                par = sm.parent[x]
                m.add_node(
                    tr[x], parent if par is None else tr[par], sub.num_out_ports(Node(x))
                )
                m.inserted.add(tr[x])
                handles[tr[x]] = mapping[Node(x)]
            for s, so, d, do in sm.links:
                m.add_link(tr[s], so, tr[d], do)
            check(sub, sm)  # the inserted HUGR itself is untouched
        check(h, m)
    return h, m


def fixed_history() -> None:
    """A hand-written history hitting multi-target ports, repeated links,
    order links, deletion in the middle of a port and index stability."""
    h = Hugr(ops.DFG([]))
    m = Model(h.root.idx)
    a, b, c = (h.add_node(ops.DFG([]), num_outs=2) for _ in range(3))
    for n in (a, b, c):
        m.add_node(n.idx, h.root.idx, 2)
    hist = [
        (a, 0, b, 0), (a, 0, c, 1), (a, 0, b, 0), (c, 1, b, 0), (a, 0, b, 3),
        (a, -1, b, -1), (c, -1, b, -1), (a, 0, a, 0), (b, 4, b, 0),
    ]
    for s, so, d, do in hist:
        h.add_link(s.out(so), d.inp(do))
        m.add_link(s.idx, so, d.idx, do)
        check(h, m)
    h.add_order_link(a, b)  # already there: still exactly one
    m.add_order_link(a.idx, b.idx)
    check(h, m)
    for s, so, d, do in [(a, 0, b, 0), (a, 0, c, 1), (a, -1, b, -1), (a, 0, c, 1)]:
        h.delete_link(s.out(so), d.inp(do))
        m.delete_link(s.idx, so, d.idx, do)
        check(h, m)
    h.delete_node(c)
    m.delete_node(c.idx)
    check(h, m)
    d = h.add_node(ops.DFG([]), a)
    m.add_node(d.idx, a.idx, None)
    check(h, m)
    # a port with many links (fan-out and fan-in), thinned out from the middle
    fan = [(d, 1, b if i % 3 else a, i % 2) for i in range(13)]
    fan += [(a if i % 2 else b, i % 3, d, 2) for i in range(11)]
    for s, so, t, to in fan:
        h.add_link(s.out(so), t.inp(to))
        m.add_link(s.idx, so, t.idx, to)
        check(h, m)
    for i in (5, 0, 20, 7, 7, 13, 23, 11, 2):
        s, so, t, to = fan[i]
        h.delete_link(s.out(so), t.inp(to))
        m.delete_link(s.idx, so, t.idx, to)
        check(h, m)
    h.add_link(d.out(1), a.inp(0))
    m.add_link(d.idx, 1, a.idx, 0)
    check(h, m)
    h.delete_node(d)
    m.delete_node(d.idx)
    check(h, m)


def outcome(f) -> str:
    try:
        r = f()
    except Exception as e:  # noqa: BLE001
        kinds = [c.__name__ for c in type(e).__mro__ if c not in (object, BaseException)]
        return f"raises {' < '.join(kinds)}: str={str(e)!r} args={e.args!r}"
    return f"returns {r!r}"


def observable_outside_the_statement() -> None:
    """What a user can see change - none of it is promised by the statement.
    Only prints; the statement-level part is that the lookups below fail with a
    KeyError on both trees."""
    h = Hugr(ops.DFG([]))
    a = h.add_node(ops.DFG([]))
    b = h.add_node(ops.DFG([]))
    h.add_link(a.out(0), b.inp(0))
    h.delete_node(b)
    print("lookup of a deleted node       :", outcome(lambda: h[b]))
    print("lookup of a never added node   :", outcome(lambda: h[Node(77)]))
    print("add_node under a deleted parent:", outcome(lambda: h.add_node(ops.DFG([]), b)))
    print("deleted node in h              :", outcome(lambda: b in h))
    print("h.get(deleted node)            :", outcome(lambda: h.get(b)))
    for f in (lambda: h[b], lambda: h[Node(77)], lambda: h.add_node(ops.DFG([]), b)):
        try:
            f()
        except KeyError as e:
            expect(e.args == (b,) or e.args == (Node(77),), "KeyError carries the node")
        else:
            raise Mismatch("lookup of a node that is not in the HUGR succeeded")
    expect(len(h) == 2 and list(h.links()) == [], "failed calls left no trace")
    # arguments of the wrong type (excluded by the documented signatures)
    t = Hugr(ops.DFG([]))
    x = t.add_node(ops.DFG([]))
    print("add_link(InPort, OutPort)      :", outcome(lambda: t.add_link(x.inp(0), x.out(0))))
    t = Hugr(ops.DFG([]))
    x = t.add_node(ops.DFG([]))
    print("add_link(Node, InPort)         :", outcome(lambda: t.add_link(x, x.inp(0))))
    print("linked_ports('p')              :", outcome(lambda: t.linked_ports("p")))


def main() -> int:
    observable_outside_the_statement()
    fixed_history()
    total = 0
    digest = hashlib.sha256()
    for seed in range(20):
        rng = random.Random(seed)
        h, m = random_history(rng, 70)
        total += len(m.parent)
        # everything observable, in the order in which it is enumerated
        digest.update(repr(list(h)).encode())
        digest.update(repr(list(h.links())).encode())
        digest.update(repr([h.children(n) for n in h]).encode())
        digest.update(
            repr([(h.num_in_ports(n), h.num_out_ports(n)) for n in h]).encode()
        )
    print(f"20 random histories of 70 steps agree with the model ({total} live nodes at the ends)")
    print("digest of the final enumerations (indices, link order, port counts):")
    print("  ", digest.hexdigest())
    print("PASS")
    return 0


if __name__ == "__main__":
    try:
        sys.exit(main())
    except Mismatch as e:
        print("FAIL:", e)
        sys.exit(1)
