"""C15 demo: index-based (tracked) wiring == explicit wiring.

Random histories of track_wire / track_wires / track_inputs / untrack_wire /
add / extend / set_indexed_outputs / set_tracked_outputs are run on a TrackedDfg
with integer arguments, and - using a model of "the most recent wire stored at
each index" kept by this script, straight from the property statement - on a
plain Dfg with every wire passed explicitly.  The two HUGRs must be the same
node for node and link for link (ops, parents, metadata, port counts, links,
serialisation), and TrackedDfg.tracked must agree with the model after every
step.

Run:  PYTHONPATH=/tmp/sf-C15/hugr-py/src /venv/bin/python demo.py
"""

from __future__ import annotations

import random
import sys

from hugr import ops, tys
from hugr.build.dfg import Dfg
from hugr.build.tracked_dfg import TrackedDfg
from hugr.hugr.node_port import Direction


def gate(n_in: int, n_out: int) -> ops.Custom:
    assert n_out >= n_in
    return ops.Custom(
        f"g{n_in}_{n_out}",
        tys.FunctionType([tys.Bool] * n_in, [tys.Bool] * n_out),
        extension="demo.ext",
    )


GATES = [gate(1, 1), gate(2, 2), gate(3, 3), gate(1, 2), gate(2, 4), gate(0, 1)]


def hugr_facts(h):
    """Everything that identifies the HUGR node for node and link for link."""
    nodes = []
    for n, d in h.nodes():
        nodes.append(
            (
                n.idx,
                repr(d.op),
                d.op,
                None if d.parent is None else d.parent.idx,
                dict(d.metadata),
                h.num_in_ports(n),
                h.num_out_ports(n),
                [c.idx for c in d.children],
            )
        )
    links = sorted(
        (s.node.idx, s.offset, t.node.idx, t.offset) for s, t in h.links()
    )
    return nodes, links


class Run:
    """One history, executed on a TrackedDfg (indices) and on a Dfg (wires)."""

    def __init__(self, rng: random.Random, width: int, track_inputs: bool):
        self.rng = rng
        in_tys = [tys.Bool] * width
        self.t = TrackedDfg(*in_tys, track_inputs=track_inputs)
        self.p = Dfg(*in_tys)
        # abstract wires: (node ordinal, offset); ordinal -1 is the input node
        self.t_nodes: dict[int, object] = {-1: self.t.input_node}
        self.p_nodes: dict[int, object] = {-1: self.p.input_node}
        self.pool: list[tuple[int, int]] = [(-1, i) for i in range(width)]
        # the model: most recent abstract wire per index, None once untracked
        self.slots: list[tuple[int, int] | None] = (
            [(-1, i) for i in range(width)] if track_inputs else []
        )
        self.n_added = 0
        self.width = width
        # links the statement asks for, derived from the model alone:
        # (source abstract wire, target node ordinal or "out", target port)
        self.expected_links: list[tuple[tuple[int, int], object, int]] = []
        self.outputs_set = False

    # -- helpers
    def tw(self, a):
        return self.t_nodes[a[0]].out(a[1])

    def pw(self, a):
        return self.p_nodes[a[0]].out(a[1])

    def live(self):
        return [i for i, s in enumerate(self.slots) if s is not None]

    def check_tracked(self):
        expect = [None if s is None else self.tw(s) for s in self.slots]
        got = list(self.t.tracked)
        assert got == expect, (got, expect)
        for i, s in enumerate(self.slots):
            if s is not None:
                assert self.t.tracked_wire(i) == self.tw(s)

    # -- the operations of the property
    def op_track_wire(self):
        if not self.pool:
            return
        a = self.rng.choice(self.pool)
        idx = self.t.track_wire(self.tw(a))
        self.slots.append(a)
        assert idx == len(self.slots) - 1

    def op_track_wires(self):
        k = self.rng.randint(0, 3)
        if not self.pool:
            return
        picks = [self.rng.choice(self.pool) for _ in range(k)]
        arg = [self.tw(a) for a in picks]
        if self.rng.random() < 0.5:
            arg = iter(arg)  # any iterable
        idxs = self.t.track_wires(arg)
        start = len(self.slots)
        self.slots.extend(picks)
        assert idxs == list(range(start, start + k))

    def op_track_inputs(self):
        idxs = self.t.track_inputs()
        start = len(self.slots)
        self.slots.extend((-1, i) for i in range(self.width))
        assert idxs == list(range(start, start + self.width))

    def op_untrack(self):
        live = self.live()
        if not live:
            return
        i = self.rng.choice(live)
        w = self.t.untrack_wire(i)
        assert w == self.tw(self.slots[i])
        self.slots[i] = None
        # freed for good: using it is an IndexError and changes nothing
        before = hugr_facts(self.t.hugr)
        for attempt in (
            lambda: self.t.tracked_wire(i),
            lambda: self.t.untrack_wire(i),
            lambda: self.t.add(GATES[0](i)),
            lambda: self.t.set_indexed_outputs(i),
        ):
            try:
                attempt()
            except IndexError:
                pass
            else:
                raise AssertionError("freed index accepted")
        assert hugr_facts(self.t.hugr) == before

    def make_args(self, n_in):
        """Mixed integer / wire arguments; returns (tracked args, abstract args)."""
        live = self.live()
        t_args, abstract = [], []
        for _ in range(n_in):
            if live and (not self.pool or self.rng.random() < 0.7):
                i = self.rng.choice(live)  # may repeat an index
                t_args.append(i)
                abstract.append(("idx", i))
            elif self.pool:
                a = self.rng.choice(self.pool)
                t_args.append(self.tw(a))
                abstract.append(("wire", a))
            else:
                return None
        return t_args, abstract

    def one_add(self, via_extend_batch=None, metadata=None):
        g = self.rng.choice(GATES)
        n_in = len(g.signature.input)
        made = self.make_args(n_in)
        if made is None:
            return None
        t_args, abstract = made
        return g, t_args, abstract

    def apply_model(self, g, abstract, ordinal):
        # explicit wires = the wires currently tracked at the integer arguments
        srcs = [self.slots[a] if kind == "idx" else a for kind, a in abstract]
        assert all(x is not None for x in srcs)
        self.expected_links.extend((x, ordinal, pos) for pos, x in enumerate(srcs))
        return [self.pw(x) for x in srcs]

    def rebind(self, abstract, ordinal):
        for pos, (kind, a) in enumerate(abstract):
            if kind == "idx":
                self.slots[a] = (ordinal, pos)

    def op_add(self):
        made = self.one_add()
        if made is None:
            return
        g, t_args, abstract = made
        md = None
        r = self.rng.random()
        if r < 0.4:
            md = {"name": f"n{self.n_added}", "k": [1, {"x": self.n_added}]}
        elif r < 0.5:
            md = {}
        ordinal = self.n_added
        p_wires = self.apply_model(g, abstract, ordinal)
        if md is None and self.rng.random() < 0.5:
            tn = self.t.add(g(*t_args))
            pn = self.p.add(g(*p_wires))
        else:
            tn = self.t.add(g(*t_args), metadata=md)
            pn = (
                self.p.add(g(*p_wires), metadata=md)
                if self.rng.random() < 0.5
                else self.p.add_op(g, *p_wires, metadata=md)
            )
        assert tn == pn
        self.finish_add(g, abstract, ordinal, tn, pn)

    def finish_add(self, g, abstract, ordinal, tn, pn):
        self.t_nodes[ordinal] = tn
        self.p_nodes[ordinal] = pn
        self.rebind(abstract, ordinal)
        self.pool.extend((ordinal, o) for o in range(len(g.signature.output)))
        self.n_added += 1

    def op_extend(self):
        # extend == add on each command in turn: later commands see the
        # rebinding done by earlier ones, so build the commands against a
        # scratch copy of the model.
        k = self.rng.randint(0, 4)
        saved_slots = list(self.slots)
        saved_pool = list(self.pool)
        saved_n = self.n_added
        batch = []
        for _ in range(k):
            made = self.one_add()
            if made is None:
                break
            g, t_args, abstract = made
            # wires produced inside this batch do not exist yet -> only use
            # indices or wires from the saved pool
            if any(kind == "wire" and a[0] >= saved_n for kind, a in abstract):
                break
            batch.append((g, t_args, abstract))
            self.rebind(abstract, self.n_added)
            self.n_added += 1
        self.slots, self.pool, self.n_added = saved_slots, saved_pool, saved_n
        t_nodes = self.t.extend(*(g(*t_args) for g, t_args, _ in batch))
        assert len(t_nodes) == len(batch)
        for (g, _t_args, abstract), tn in zip(batch, t_nodes):
            ordinal = self.n_added
            p_wires = self.apply_model(g, abstract, ordinal)
            pn = self.p.add_op(g, *p_wires)
            assert tn == pn
            self.finish_add(g, abstract, ordinal, tn, pn)

    def op_outputs(self):
        if self.rng.random() < 0.5:
            self.t.set_tracked_outputs()
            live = [s for s in self.slots if s is not None]
            self.expected_links.extend((x, "out", pos) for pos, x in enumerate(live))
            self.p.set_outputs(*(self.pw(x) for x in live))
        else:
            made = self.make_args(self.rng.randint(0, 5))
            if made is None:
                return self.op_outputs()
            t_args, abstract = made
            self.t.set_indexed_outputs(*t_args)
            self.p.set_outputs(*self.apply_model(None, abstract, "out"))
        self.outputs_set = True

    def compare(self):
        ft, fp = hugr_facts(self.t.hugr), hugr_facts(self.p.hugr)
        assert ft[0] == fp[0], "nodes differ"
        assert ft[1] == fp[1], "links differ"
        want = sorted(
            (
                self.t_nodes[src[0]].idx,
                src[1],
                self.t.output_node.idx if tgt == "out" else self.t_nodes[tgt].idx,
                pos,
            )
            for src, tgt, pos in self.expected_links
        )
        assert ft[1] == want, "links are not the ones the model prescribes"
        assert self.t.parent_node == self.p.parent_node
        assert self.t.parent_op == self.p.parent_op
        for n in self.t.hugr:
            for d in (Direction.INCOMING, Direction.OUTGOING):
                assert self.t.hugr.num_ports(n, d) == self.p.hugr.num_ports(n, d)
            for port, srcs in self.t.hugr.incoming_links(n):
                assert sorted(srcs) == sorted(self.p.hugr.linked_ports(port))
        if self.outputs_set:
            assert self.t.hugr.to_json() == self.p.hugr.to_json()
            assert self.t._output_op().types == self.p._output_op().types

    def go(self, steps: int):
        choices = (
            [self.op_add] * 8
            + [self.op_extend] * 3
            + [self.op_track_wire] * 2
            + [self.op_track_wires, self.op_track_inputs]
            + [self.op_untrack] * 2
        )
        for _ in range(steps):
            self.rng.choice(choices)()
            self.check_tracked()
            self.compare()
        self.op_outputs()
        self.check_tracked()
        self.compare()
        return len(self.t.hugr), len(list(self.t.hugr.links()))


def fixed_history():
    """A hand-written history, spelled out both ways."""
    t = TrackedDfg(tys.Bool, tys.Bool, tys.Bool, track_inputs=True)
    p = Dfg(tys.Bool, tys.Bool, tys.Bool)
    a, b, c = p.inputs()
    g11, g22, g12, g33 = gate(1, 1), gate(2, 2), gate(1, 2), gate(3, 3)

    n0 = t.add(g11(0), metadata={"name": "first"})
    m0 = p.add_op(g11, a, metadata={"name": "first"})
    n1, n2 = t.extend(g22(0, 2), g22(2, 0))  # second sees the first's rebinding
    m1 = p.add_op(g22, m0[0], c)
    m2 = p.add_op(g22, m1[1], m1[0])
    assert t.untrack_wire(1) == t.inputs()[1]
    k = t.track_wire(n0[0])  # old wire, new index (1 stays freed)
    assert k == 3
    n3 = t.add(g12(3))  # slot 3 <- n3.out(0)
    m3 = p.add_op(g12, m0[0])
    n4 = t.add(g33(n3[1], 0, 0), metadata={"k": 1})  # same index twice + a wire
    m4 = p.add_op(g33, m3[1], m2[1], m2[1], metadata={"k": 1})
    # position-wise rebinding: last argument naming index 0 is at position 2
    assert t.tracked == [n4.out(2), None, n2.out(0), n3.out(0)]
    t.set_indexed_outputs(3, n4[0], 0, 2)
    p.set_outputs(m3[0], m4[0], m4[2], m2[0])
    assert (n0, n1, n2, n3, n4) == (m0, m1, m2, m3, m4)
    assert hugr_facts(t.hugr) == hugr_facts(p.hugr)
    assert t.hugr.to_json() == p.hugr.to_json()

    t2 = TrackedDfg(tys.Bool, tys.Bool, track_inputs=True)
    p2 = Dfg(tys.Bool, tys.Bool)
    t2.untrack_wire(0)
    t2.track_inputs()
    t2.add(g22(3, 1))
    x = p2.add_op(g22, p2.inputs()[1], p2.inputs()[1])
    t2.set_tracked_outputs()  # index order: 1, 2, 3
    p2.set_outputs(x[1], p2.inputs()[0], x[0])
    assert hugr_facts(t2.hugr) == hugr_facts(p2.hugr)
    assert t2.hugr.to_json() == p2.hugr.to_json()


def extra() -> None:
    """What the change makes observable (outside the property statement)."""
    import hugr.build.tracked_dfg as mod

    t = TrackedDfg(tys.Bool, tys.Bool, track_inputs=True)
    t.untrack_wire(0)
    print("repr(builder):", repr(t))
    print("tracked_indices():", t.tracked_indices() if hasattr(t, "tracked_indices") else "<no such method>")
    for idx in (0, 7):
        try:
            t.add(gate(1, 1)(idx))
        except IndexError as e:  # documented exception type, still the case
            print(f"add(g({idx})):", type(e).__name__, "-", e)
            assert str(e).startswith(f"Index {idx} not a tracked wire.")
        else:
            raise AssertionError("untracked index accepted")
    print("UntrackedIndexError exported:", hasattr(mod, "UntrackedIndexError"))
    # arguments violating the documented parameter type (Wire)
    for bad in (None, 3):
        t3 = TrackedDfg(tys.Bool)
        try:
            r = t3.track_wire(bad)
            print(f"track_wire({bad!r}): accepted, returned", r)
        except TypeError as e:
            print(f"track_wire({bad!r}): TypeError -", e)
    # integer index given to a plain Dfg: ValueError before and after
    p = Dfg(tys.Bool)
    before = hugr_facts(p.hugr)
    try:
        p.add(gate(1, 1)(0))
    except ValueError as e:
        print("Dfg.add(g(0)): ValueError -", e)
    else:
        raise AssertionError("plain Dfg accepted an index")
    assert hugr_facts(p.hugr) == before


def main() -> int:
    fixed_history()
    total_nodes = total_links = 0
    n_runs = 0
    for seed in range(300):
        rng = random.Random(seed)
        width = rng.choice([0, 1, 2, 3, 5, 8])
        run = Run(rng, width, track_inputs=rng.random() < 0.7)
        nn, nl = run.go(rng.randint(3, 40))
        total_nodes += nn
        total_links += nl
        n_runs += 1
    print(f"{n_runs} random histories, {total_nodes} nodes, {total_links} links compared")
    extra()
    print("PASS")
    return 0


if __name__ == "__main__":
    sys.exit(main())
