"""Demo for change 3 (JSON key order; owning extension listed first in runtime requirements).

Exercises property C10 on a few hand-built extensions and on every bundled
standard extension.  Prints PASS and exits 0 on the clean tree and with the
change applied.
"""

from __future__ import annotations

import json
import pkgutil
import sys
from pathlib import Path

ROOT = Path(__file__).resolve().parents[2]
SPEC = ROOT / "specification" / "std_extensions"


def build_extensions():
    from hugr import ext, tys, val

    exts = []

    # --- 1: mix of everything ------------------------------------------
    e = ext.Extension(
        "demo.ext",
        ext.Version(1, 2, 3),
        runtime_reqs={"prelude", "zz.other", "aa.other"},
    )
    t0 = e.add_type_def(
        ext.TypeDef(
            "T0", "no params, explicit", [], ext.ExplicitBound(tys.TypeBound.Copyable)
        )
    )
    e.add_type_def(
        ext.TypeDef(
            "Pair",
            "bound from params",
            [
                tys.TypeTypeParam(tys.TypeBound.Any),
                tys.BoundedNatParam(4),
                tys.TypeTypeParam(tys.TypeBound.Copyable),
            ],
            ext.FromParamsBound([0, 2]),
        )
    )
    e.add_type_def(
        ext.TypeDef(
            "Lin",
            "linear",
            [tys.StringParam(), tys.ListParam(tys.BoundedNatParam(None))],
            ext.ExplicitBound(tys.TypeBound.Any),
        )
    )
    e.add_type_def(ext.TypeDef("Empty", "", [], ext.FromParamsBound([])))

    t0_inst = t0.instantiate([])
    e.add_op_def(
        ext.OpDef(
            "Mono",
            ext.OpDefSig(tys.FunctionType([tys.Bool, t0_inst], [tys.Qubit])),
            "monomorphic",
            {"k": [1, 2, {"x": None}], "s": "str"},
        )
    )
    var = tys.Variable(0, tys.TypeBound.Any)
    e.add_op_def(
        ext.OpDef(
            "Poly",
            ext.OpDefSig(
                tys.PolyFuncType(
                    [tys.TypeTypeParam(tys.TypeBound.Any), tys.BoundedNatParam(7)],
                    tys.FunctionType(
                        [var, tys.Tuple(var, tys.Bool)],
                        [var],
                        runtime_reqs=["zz.needed", "bb.needed"],
                    ),
                )
            ),
            "polymorphic, with further runtime requirements",
        )
    )
    e.add_op_def(ext.OpDef("Bin", ext.OpDefSig(None, binary=True), "binary only"))
    e.add_op_def(
        ext.OpDef(
            "Both",
            ext.OpDefSig(tys.FunctionType.endo([tys.Qubit]), binary=True),
            misc={"m": 1.5},
        )
    )
    e.add_extension_value(ext.ExtensionValue("true", val.TRUE))
    e.add_extension_value(
        ext.ExtensionValue("tup", val.Tuple(val.TRUE, val.FALSE, val.Unit))
    )
    e.add_extension_value(ext.ExtensionValue("some", val.Some(val.TRUE)))
    exts.append(e)

    # --- 2: empty extension -------------------------------------------
    exts.append(ext.Extension("demo.empty", ext.Version(0, 0, 1)))

    # --- 3: built by moving definitions over from extension 1 and with
    #        register_op -----------------------------------------------
    e3 = ext.Extension(
        "demo.third", ext.Version(10, 0, 0, prerelease="rc.1"), runtime_reqs={"demo.ext"}
    )
    for od in list(e.operations.values()):
        e3.add_op_def(od)
    for td in list(e.types.values()):
        e3.add_type_def(td)
    for v in list(e.values.values()):
        e3.add_extension_value(v)

    from dataclasses import dataclass

    from hugr import ops

    @e3.register_op(signature=tys.FunctionType([tys.Bool], [tys.Bool]))
    @dataclass(frozen=True)
    class Registered(ops.RegisteredOp):
        """A registered operation."""

    @e3.register_op(name="RegBin", description="explicit description")
    @dataclass(frozen=True)
    class RegisteredBinary(ops.RegisteredOp):
        pass

    exts.append(e3)
    # the first extension must not have been disturbed by the moves
    exts.append(e)
    return exts


def check_owned(e) -> None:
    for k, od in e.operations.items():
        assert od.name == k
        assert od.get_extension() is e, (e.name, k)
        assert od._extension is e
        if od.signature.poly_func is not None:
            assert e.name in od.signature.poly_func.body.runtime_reqs, (e.name, k)
    for k, td in e.types.items():
        assert td.name == k and td.get_extension() is e
    for k, v in e.values.items():
        assert v.name == k and v.get_extension() is e


def same_extension(a, b) -> None:
    assert a.name == b.name
    assert a.version == b.version, (a.version, b.version)
    assert set(a.runtime_reqs) == set(b.runtime_reqs)
    assert list(a.types) == list(b.types)
    for k in a.types:
        x, y = a.types[k], b.types[k]
        assert (x.name, x.description, x.params, x.bound) == (
            y.name,
            y.description,
            y.params,
            y.bound,
        ), k
    assert list(a.operations) == list(b.operations)
    for k in a.operations:
        x, y = a.operations[k], b.operations[k]
        assert x.name == y.name
        assert x.description == y.description
        assert x.misc == y.misc
        assert x.signature.binary == y.signature.binary
        assert (x.signature.poly_func is None) == (y.signature.poly_func is None)
        if x.signature.poly_func is not None:
            # extension types come back unresolved (`Opaque`), so compare the
            # signatures through their serialized form
            assert (
                x.signature.poly_func._to_serial() == y.signature.poly_func._to_serial()
            ), (k, x.signature.poly_func, y.signature.poly_func)
            assert list(x.signature.poly_func.body.runtime_reqs) == list(
                y.signature.poly_func.body.runtime_reqs
            )
        assert x.lower_funcs == y.lower_funcs == []
    assert list(a.values) == list(b.values)
    for k in a.values:
        x, y = a.values[k], b.values[k]
        assert x.name == y.name
        assert x.val._to_serial_root() == y.val._to_serial_root(), k


def check_roundtrip(e) -> str:
    from hugr.ext import Extension

    check_owned(e)
    doc1 = e.to_json()
    loaded = Extension.from_json(doc1)
    check_owned(loaded)
    same_extension(e, loaded)
    doc2 = loaded.to_json()
    assert doc1 == doc2, "re-serialization differs"
    # a second generation as well
    again = Extension.from_json(doc2)
    same_extension(loaded, again)
    assert again.to_json() == doc1
    check_owned(again)
    return doc1


def check_std() -> int:
    import hugr.std
    from hugr.ext import Extension

    n = 0
    for path in sorted(SPEC.rglob("*")):
        if not path.is_file():
            continue
        rel = path.relative_to(SPEC).as_posix()
        bundled = pkgutil.get_data("hugr.std", f"_json_defs/{rel}")
        assert bundled is not None, rel
        assert bundled == path.read_bytes(), f"{rel}: bundled copy differs from spec"
        if path.suffix != ".json":
            continue
        n += 1
        name = rel[: -len(".json")].replace("/", ".")
        e = hugr.std._load_extension(name)
        doc = json.loads(bundled)
        assert e.name == doc["name"]
        assert str(e.version) == doc["version"]
        assert set(e.runtime_reqs) == set(doc["runtime_reqs"])
        assert list(e.types) == list(doc["types"])
        assert list(e.operations) == list(doc["operations"])
        assert list(e.values) == list(doc["values"])
        for k, od in e.operations.items():
            assert od.description == doc["operations"][k]["description"]
            assert od.signature.binary == doc["operations"][k].get("binary", False)
        e2 = Extension.from_json(bundled.decode())
        same_extension(e, e2)
        check_roundtrip(e)
    # nothing bundled that is not in the spec (apart from the README)
    bundled_dir = Path(hugr.std.__file__).parent / "_json_defs"
    for path in bundled_dir.rglob("*.json"):
        assert (SPEC / path.relative_to(bundled_dir)).is_file(), path
    return n


def check_helpers() -> None:
    from hugr import tys, val
    from hugr.std import PRELUDE
    from hugr.std import float as float_
    from hugr.std import int as int_
    from hugr.std import logic, prelude
    from hugr.std.collections import array, list as list_, static_array

    # integers
    int_def = int_.INT_TYPES_EXTENSION.get_type("int")
    assert int_.INT_T_DEF is int_def
    assert int_def.params == [int_._INT_PARAM]
    for w in range(7):
        t = int_.int_t(w)
        assert t.type_def is int_def and t.args == [tys.BoundedNatArg(w)]
        v = int_.IntVal(3, w).to_value()
        assert v.typ == t and v.extensions == [int_.INT_TYPES_EXTENSION.name]
    assert int_.INT_T == int_.int_t(5)
    dm = int_.DivMod
    assert dm.op_def() is int_.INT_OPS_EXTENSION.get_op("idivmod_u")
    assert dm.op_def().get_extension() is int_.INT_OPS_EXTENSION
    assert len(dm.type_args()) == len(dm.op_def().signature.poly_func.params)
    assert int_.INT_OPS_EXTENSION.name in dm.cached_signature().runtime_reqs

    # floats
    fdef = float_.FLOAT_TYPES_EXTENSION.get_type("float64")
    assert float_.FLOAT_T.type_def is fdef and fdef.params == []
    assert float_.FLOAT_T.args == []
    assert float_.FloatVal(0.5).to_value().typ == float_.FLOAT_T

    # strings
    sdef = prelude.PRELUDE_EXTENSION.get_type("string")
    assert prelude.STRING_T_DEF is sdef and sdef.params == []
    assert prelude.STRING_T.type_def is sdef
    assert prelude.StringVal("x").to_value().typ == prelude.STRING_T
    assert PRELUDE.name == prelude.PRELUDE_EXTENSION.name == "prelude"

    # logic
    assert logic.Not.op_def() is logic.EXTENSION.get_op("Not")
    assert logic.Not.op_def().get_extension() is logic.EXTENSION

    # collections
    adef = array.EXTENSION.get_type("array")
    a = array.Array(tys.Bool, 3)
    assert a.type_def is adef and len(a.args) == len(adef.params) == 2
    assert isinstance(adef.params[0], tys.BoundedNatParam)
    assert isinstance(adef.params[1], tys.TypeTypeParam)
    assert a.size == 3 and a.ty == tys.Bool
    av = array.ArrayVal([val.TRUE, val.FALSE], tys.Bool).to_value()
    assert av.typ.type_def is adef and av.extensions == [array.EXTENSION.name]

    ldef = list_.EXTENSION.get_type("List")
    lt = list_.List(tys.Bool)
    assert lt.type_def is ldef and len(lt.args) == len(ldef.params) == 1
    assert list_.ListVal([val.TRUE], tys.Bool).to_value().typ.type_def is ldef

    sadef = static_array.EXTENSION.get_type("static_array")
    st = static_array.StaticArray(tys.Bool)
    assert st.type_def is sadef and len(st.args) == len(sadef.params) == 1
    sv = static_array.StaticArrayVal([val.TRUE], tys.Bool, "n").to_value()
    assert sv.typ.type_def is sadef


def extra() -> None:
    """The freedoms this change uses: order of the keys of the JSON objects in
    the document, and the position of the owning extension in the runtime
    requirements of an operation's signature."""
    from hugr import ext, tys

    e = build_extensions()[0]
    doc = e.to_json()
    parsed = json.loads(doc)
    print("-- choices made by the implementation (informational) --")
    print("keys of the extension object :", list(parsed))
    print("keys of an operation object  :", list(parsed["operations"]["Poly"]))
    print("keys of a type object        :", list(parsed["types"]["Pair"]))
    print("keys of a value object       :", list(parsed["values"]["tup"]))
    # whatever the order, it is the same set of keys, and order-insensitive
    # consumers see the same document after a round trip
    assert set(parsed) == {
        "name", "version", "runtime_reqs", "types", "values", "operations",
    }
    assert set(parsed["operations"]["Poly"]) >= {
        "extension", "name", "description", "signature", "binary",
    }
    assert json.loads(ext.Extension.from_json(doc).to_json()) == parsed
    # member order inside types / operations / values is insertion order
    assert list(parsed["types"]) == list(e.types)
    assert list(parsed["operations"]) == list(e.operations)
    assert list(parsed["values"]) == list(e.values)

    reqs = e.operations["Poly"].signature.poly_func.body.runtime_reqs
    print("runtime_reqs of demo.ext.Poly :", list(reqs))
    assert set(reqs) == {"demo.ext", "zz.needed", "bb.needed"}
    assert len(reqs) == 3
    assert parsed["operations"]["Poly"]["signature"]["body"]["runtime_reqs"] == list(
        reqs
    )

    a = ext.Extension("own.a", ext.Version(0, 1, 0))
    b = ext.Extension("own.z", ext.Version(0, 1, 0))
    od = a.add_op_def(ext.OpDef("Op", ext.OpDefSig(tys.FunctionType([tys.Bool], []))))
    moved = b.add_op_def(od)
    print(
        "op of own.a added to own.z    :",
        list(moved.signature.poly_func.body.runtime_reqs),
    )
    assert set(moved.signature.poly_func.body.runtime_reqs) == {"own.a", "own.z"}
    assert list(od.signature.poly_func.body.runtime_reqs) == ["own.a"]
    # adding it once more does not change anything (normal form is stable)
    before = list(moved.signature.poly_func.body.runtime_reqs)
    assert b.add_op_def(moved) is moved
    assert list(moved.signature.poly_func.body.runtime_reqs) == before
    check_roundtrip(a)
    check_roundtrip(b)
    print("-- end --")


def main() -> int:
    docs = [check_roundtrip(e) for e in build_extensions()]
    assert docs[0] == docs[3], "moving definitions disturbed the source extension"
    n = check_std()
    check_helpers()
    extra()
    print(f"round-tripped {len(docs)} hand-built and {n} standard extensions")
    print("PASS")
    return 0


if __name__ == "__main__":
    sys.exit(main())
