"""Scenarios for property C13: each returns (label, expected exception classes, thunk)."""
from hugr import ops, tys, val
from hugr.build.cfg import Cfg
from hugr.build.cond_loop import Conditional, ConditionalError
from hugr.build.dfg import Dfg, Function
from hugr.build.function import Module
from hugr.build.tracked_dfg import TrackedDfg
from hugr.exceptions import MismatchedExit, NoSiblingAncestor, NotInSameCfg
from hugr.ops import IncompleteOp, NoConcreteFunc

ROWS = [[tys.Bool], [tys.Qubit, tys.Bool], [tys.Unit, tys.Tuple(tys.Bool, tys.Qubit)], []]


def scenarios():
    out = []

    def sc(label, exc):
        def deco(f):
            out.append((label, exc, f))
            return f
        return deco

    # --- wires without ancestor-sibling relation, several depths
    for depth in (1, 2, 3):
        for row in ROWS[:3]:
            @sc(f"no-sibling depth={depth} row={row}", NoSiblingAncestor)
            def _(depth=depth, row=row):
                outer = Dfg(*row)
                a = outer.add_nested(*outer.inputs())
                inner = a
                for _i in range(depth - 1):
                    inner = inner.add_nested(*inner.inputs())
                n = inner.add_op(ops.Noop(), inner.inputs()[0])
                # sibling nest b: source deep inside a is no sibling of b's ancestors
                b = outer.add_nested(*outer.inputs())
                b.add_op(ops.Noop(), n[0])

    @sc("no-sibling: source inside child, target in parent", NoSiblingAncestor)
    def _():
        outer = Dfg(tys.Bool)
        a = outer.add_nested(*outer.inputs())
        outer.set_outputs(a.inputs()[0])

    # --- wire from outside the CFG into a block
    for depth in (0, 1, 2):
        @sc(f"not-in-same-cfg depth={depth}", NotInSameCfg)
        def _(depth=depth):
            d = Dfg(tys.Bool, tys.Unit)
            other = d.add_nested(*d.inputs())
            n = other.add_op(ops.Noop(), other.inputs()[0])
            cfg = d.add_cfg(*d.inputs())
            blk = cfg.add_entry()
            b = blk
            for _i in range(depth):
                b = b.add_nested(*b.inputs())
            # for depth>0 the failing builder is a Dfg -> NoSiblingAncestor is the
            # documented one; only depth 0 is a Block
            b.add_op(ops.Noop(), n[0])
    # fix expected for nested depth (builder is a plain Dfg there)
    out[-1] = (out[-1][0], (NotInSameCfg, NoSiblingAncestor), out[-1][2])
    out[-2] = (out[-2][0], (NotInSameCfg, NoSiblingAncestor), out[-2][2])

    # --- conditional cases
    for row in ROWS[:3]:
        @sc(f"cases disagree row={row}", ConditionalError)
        def _(row=row):
            c = Conditional(tys.Either(row, row), [tys.Unit])
            with c.add_case(0) as c0:
                c0.set_outputs(*c0.inputs())
            with c.add_case(1) as c1:
                c1.set_outputs(*c1.inputs()[:-1])

    for n in (1, 2, 3):
        @sc(f"case index out of range n={n}", ConditionalError)
        def _(n=n):
            c = Conditional(tys.Sum([[tys.Bool]] * n), [])
            c.add_case(n)

        @sc(f"case built twice n={n}", ConditionalError)
        def _(n=n):
            c = Conditional(tys.Sum([[tys.Bool]] * n), [])
            with c.add_case(n - 1) as k:
                k.set_outputs(*k.inputs())
            c.add_case(n - 1)

    @sc("conditional context left with unbuilt cases", ConditionalError)
    def _():
        d = Dfg(tys.Bool, tys.Qubit)
        b, q = d.inputs()
        with d.add_conditional(b, q) as c:
            with c.add_case(1) as k:
                k.set_outputs(*k.inputs())

    # --- exit branch disagreement
    for row in ROWS[:3]:
        @sc(f"mismatched exit row={row}", MismatchedExit)
        def _(row=row):
            cfg = Cfg(*row)
            with cfg.add_entry() as e:
                e.set_single_succ_outputs(*e.inputs())
            cfg.branch_exit(e[0])
            with cfg.add_block(tys.Unit) as b2:
                b2.set_single_succ_outputs(*b2.inputs(), *b2.inputs())
            cfg.branch(b2[0], cfg.exit)

    # --- function outputs vs declared
    for row in ROWS[:3]:
        @sc(f"declared outputs differ row={row}", ValueError)
        def _(row=row):
            m = Module()
            f = m.define_function("f", row, [tys.Unit])
            f.set_outputs(*f.inputs())

    # --- polymorphic call/load
    def poly(m):
        return m.declare_function(
            "id",
            tys.PolyFuncType(
                [tys.TypeTypeParam(tys.TypeBound.Any)],
                tys.FunctionType.endo([tys.Variable(0, tys.TypeBound.Any)]),
            ),
        )
    inst = tys.FunctionType.endo([tys.Qubit])

    @sc("poly call without instantiation", NoConcreteFunc)
    def _():
        m = Module(); f = poly(m); main = m.define_main([tys.Qubit])
        main.call(f, main.input_node[0])

    @sc("poly call wrong arg count (0)", NoConcreteFunc)
    def _():
        m = Module(); f = poly(m); main = m.define_main([tys.Qubit])
        main.call(f, main.input_node[0], instantiation=inst)

    @sc("poly call wrong arg count (2)", NoConcreteFunc)
    def _():
        m = Module(); f = poly(m); main = m.define_main([tys.Qubit])
        main.call(f, main.input_node[0], instantiation=inst,
                  type_args=[tys.Qubit.type_arg(), tys.Bool.type_arg()])

    @sc("poly load without instantiation", NoConcreteFunc)
    def _():
        m = Module(); f = poly(m); main = m.define_main([tys.Qubit])
        main.load_function(f)

    @sc("poly load wrong arg count", NoConcreteFunc)
    def _():
        m = Module(); f = poly(m); main = m.define_main([tys.Qubit])
        main.load_function(f, instantiation=inst, type_args=[])

    # --- non-function / non-dataflow port
    @sc("call a non-function node", ValueError)
    def _():
        d = Dfg(tys.Bool)
        n = d.add_op(ops.Noop(), d.inputs()[0])
        d.call(n, d.inputs()[0])

    @sc("load_function of a non-function node", ValueError)
    def _():
        d = Dfg(tys.Bool)
        d.load_function(d.input_node)

    @sc("function port used as dataflow wire", ValueError)
    def _():
        m = Module()
        f = m.define_function("f", [tys.Bool], [tys.Bool])
        main = m.define_main([tys.Bool])
        main.add_op(ops.Noop(), f.parent_node.out(0))

    # --- integer wire indices
    @sc("int index in untracked Dfg.add", ValueError)
    def _():
        d = Dfg(tys.Bool)
        d.add(ops.Noop()(0))

    @sc("int index in untracked Dfg.extend (2nd command)", ValueError)
    def _():
        d = Dfg(tys.Bool, tys.Unit)
        b, u = d.inputs()
        d.extend(ops.Noop()(b), ops.Noop()(1))

    @sc("int index in nested untracked builder", ValueError)
    def _():
        d = TrackedDfg(tys.Bool, track_inputs=True)
        inner = d.add_nested(d.tracked_wire(0))
        inner.add(ops.Noop()(0))

    @sc("untracked index in TrackedDfg.add", IndexError)
    def _():
        d = TrackedDfg(tys.Bool, tys.Unit, track_inputs=True)
        d.add(ops.Noop()(2))

    @sc("untracked (released) index in TrackedDfg.add", IndexError)
    def _():
        d = TrackedDfg(tys.Bool, tys.Unit, track_inputs=True)
        d.untrack_wire(1)
        d.add(ops.Noop()(0))
        d.add(ops.MakeTuple()(0, 1))

    @sc("untracked index in set_indexed_outputs", IndexError)
    def _():
        d = TrackedDfg(tys.Bool, tys.Unit)
        d.track_wire(d.inputs()[1])
        d.set_indexed_outputs(0, 1)

    @sc("untrack of untracked index", IndexError)
    def _():
        d = TrackedDfg(tys.Bool)
        d.untrack_wire(0)

    # --- incomplete op serialised
    @sc("serialise DFG without outputs", IncompleteOp)
    def _():
        d = Dfg(tys.Bool)
        d.add_op(ops.Noop(), d.inputs()[0])
        d.hugr._to_serial()

    @sc("serialise nested incomplete conditional", IncompleteOp)
    def _():
        d = Dfg(tys.Bool, tys.Qubit)
        b, q = d.inputs()
        c = d.add_conditional(b, q)
        d.set_outputs(b)
        d.hugr._to_serial()

    @sc("serialise unwired Noop", IncompleteOp)
    def _():
        d = Dfg(tys.Bool)
        d.hugr.add_node(ops.Noop(), d.parent_node)
        d.set_outputs(d.inputs()[0])
        d.hugr._to_serial()

    return out


def positives():
    """Consistent programs must still build and serialise."""
    d = Dfg(tys.Bool, tys.Qubit)
    b, q = d.inputs()
    with d.add_nested(b) as n1:
        with n1.add_nested(*n1.inputs()) as n2:
            x = n2.add_op(ops.Noop(), q)  # inter-graph edge from grandparent sibling
            n2.set_outputs(x)
        n1.set_outputs(n2)
    with d.add_conditional(b, q) as c:
        with c.add_case(0) as c0:
            c0.set_outputs(*c0.inputs())
        with c.add_case(1) as c1:
            c1.set_outputs(*c1.inputs())
    d.set_outputs(n1, c)
    d.hugr._to_serial()

    cfg = Cfg(tys.Bool)
    with cfg.add_entry() as e:
        e.set_single_succ_outputs(*e.inputs())
    with cfg.add_successor(e[0]) as b2:
        y = b2.add_op(ops.Noop(), e.inputs()[0])  # cross-block edge inside same CFG
        b2.set_single_succ_outputs(y)
    cfg.branch_exit(b2[0])
    cfg.hugr._to_serial()

    t = TrackedDfg(tys.Bool, tys.Unit, track_inputs=True)
    t.add(ops.Noop()(0))
    t.add(ops.Noop()(1))
    t.add(ops.Noop()(0))
    t.set_tracked_outputs()
    t.hugr._to_serial()


def run(verbose=False):
    failures = []
    seen = {}
    for label, exc, f in scenarios():
        try:
            f()
        except exc as e:
            seen[label] = e
            if verbose:
                print(f"  ok   {label}: {type(e).__name__}: {e}")
        except Exception as e:  # wrong exception
            failures.append(f"{label}: raised {type(e).__name__}: {e!r}")
        else:
            failures.append(f"{label}: silently accepted")
    try:
        positives()
    except Exception as e:
        failures.append(f"positive program rejected: {e!r}")
    return failures, seen


#: the documented (base) exception each clause must be refused with
DOCUMENTED = {
    "no-sibling": NoSiblingAncestor,
    "not-in-same-cfg depth=0": NotInSameCfg,
    "cases disagree": ConditionalError,
    "case index": ConditionalError,
    "case built twice": ConditionalError,
    "conditional context": ConditionalError,
    "mismatched exit": MismatchedExit,
    "declared outputs": ValueError,
    "poly": NoConcreteFunc,
    "call a non-function": ValueError,
    "load_function of a non-function": ValueError,
    "function port used": ValueError,
    "int index": ValueError,
    "untrack": IndexError,
    "serialise": IncompleteOp,
}


if __name__ == "__main__":
    failures, seen = run()
    for f in failures:
        print("FAIL", f)
    # every refusal is still an instance of the documented class
    for label, e in seen.items():
        for prefix, cls in DOCUMENTED.items():
            if label.startswith(prefix) and not isinstance(e, cls):
                failures.append(f"{label}: {type(e).__name__} is not a {cls.__name__}")
    print("scenarios refused as required:", len(seen))
    print("--- what a user sees (differs between the clean and the changed tree):")
    shown = set()
    for label, e in seen.items():
        key = (type(e).__name__, label.split(" row=")[0].split(" depth=")[0].split(" n=")[0])
        if key in shown:
            continue
        shown.add(key)
        bases = [c.__name__ for c in type(e).__mro__[1:] if c not in (object, BaseException)]
        extra = {k: v for k, v in vars(e).items()}
        print(f"  {label}\n      {type(e).__name__}{bases}: {e}\n      attributes: {extra}")
    c = Conditional(tys.Bool, [])
    c.add_case(1)
    print("  Conditional.unbuilt_cases():",
          c.unbuilt_cases() if hasattr(c, "unbuilt_cases") else "<no such method>")
    if failures:
        for f in failures:
            print("FAIL", f)
        raise SystemExit(1)
    print("PASS")
