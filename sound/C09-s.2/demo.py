"""C09 demo: package envelopes round-trip and carry the documented header.

Run with
    PYTHONPATH=/tmp/sf-C09/hugr-py/src /venv/bin/python demo.py
Prints PASS and exits 0 when every clause of the property holds.
"""

from __future__ import annotations

import itertools
import json
import sys

import pyzstd
from semver import Version

from hugr import ext, tys
from hugr.build.function import Module
from hugr.envelope import (
    MAGIC_NUMBERS,
    EnvelopeConfig,
    EnvelopeFormat,
    EnvelopeHeader,
    read_envelope,
    read_envelope_str,
)
from hugr.package import Package

FAILURES: list[str] = []


def check(cond: bool, what: str) -> None:
    if not cond:
        FAILURES.append(what)


# ---------------------------------------------------------------- inputs


def mod_id(name: str, meta: dict | None = None):
    mod = Module()
    f = mod.define_function(name, [tys.Qubit])
    f.set_outputs(f.input_node[0])
    if meta:
        mod.hugr[mod.hugr.root].metadata.update(meta)
        mod.hugr[f.to_node()].metadata.update(meta)
    return mod.hugr


def mod_call(name: str):
    mod = Module()
    decl = mod.declare_function(
        name, tys.PolyFuncType([], tys.FunctionType([tys.Qubit], [tys.Qubit]))
    )
    main = mod.define_main([tys.Qubit, tys.Bool])
    q, b = main.inputs()
    call = main.call(decl, q)
    main.set_outputs(call, b)
    return mod.hugr


def extension(name: str, descr: str, reqs: set[str]) -> ext.Extension:
    e = ext.Extension(name, Version(1, 2, 3), runtime_reqs=set(reqs))
    e.add_type_def(
        ext.TypeDef(
            name="Tä\U0001f600",
            description=descr,
            params=[tys.TypeTypeParam(tys.TypeBound.Any)],
            bound=ext.FromParamsBound([0]),
        )
    )
    e.add_type_def(
        ext.TypeDef(
            name="A",
            description="plain",
            params=[],
            bound=ext.ExplicitBound(tys.TypeBound.Copyable),
        )
    )
    e.add_op_def(
        ext.OpDef(
            name="Ωp",
            description=descr,
            misc={"kéy": ["漢字", 1, None, {"z": 1, "a": 2}]},
            signature=ext.OpDefSig(tys.FunctionType([tys.Bool], [tys.Bool])),
        )
    )
    return e


def packages() -> list[tuple[str, Package]]:
    nonascii = {
        "näme": "üñîçødé \U0001f680 漢字",
        "nested": {"ключ": ["☃", 1.5, True, None]},
        "ctrl": 'quote" backslash\\ newline\n tab\t del\x7f nul\x00',
        "literal escapes": "\\u00e9 \\ud83d\\ude00 \\\\u0041 \u00e9 \uffff \U0010ffff",
    }
    e1 = extension("ext.ünï", "déscription \U0001f600", {"b", "a", "ç"})
    e2 = extension("ext.two", "second", set())
    return [
        ("empty", Package([])),
        ("only-extensions", Package([], [e2, e1])),
        ("one-module", Package([mod_id("id")])),
        (
            "non-ascii",
            Package([mod_id("fünc\U0001f600", nonascii), mod_call("ф")], [e1]),
        ),
        (
            "many",
            Package(
                [mod_call("id"), mod_id("id"), mod_id("id"), mod_id("x", nonascii)],
                [e1, e2, extension("ext.two", "same name again", {"q"})],
            ),
        ),
    ]


# ---------------------------------------------------------------- round trips


def documents(p: Package) -> tuple[list, list]:
    """The documents the modules and extensions of `p` serialize to, in order."""
    mods = [json.loads(m._to_serial().to_json()) for m in p.modules]
    exts = [json.loads(e._to_serial().model_dump_json()) for e in p.extensions]
    return mods, exts


def documents_text(p: Package) -> tuple[list, list]:
    """Same, as text (also fixes the order of keys)."""
    mods = [m._to_serial().to_json() for m in p.modules]
    exts = [e._to_serial().model_dump_json() for e in p.extensions]
    return mods, exts


LEVELS = [None, 0, 1, 3, 9, 19, 22, -1, -7]


def check_header(label: str, head: bytes, fmt: EnvelopeFormat, zstd: bool) -> None:
    check(len(head) == 10, f"{label}: header shorter than ten bytes")
    check(head[:8] == MAGIC_NUMBERS == b"HUGRiHJv", f"{label}: magic number")
    check(head[8] == fmt.value, f"{label}: format byte")
    flags = head[9]
    check(bool(flags & 1) == zstd, f"{label}: flags bit 0 is the zstd bit")
    check((flags >> 6) & 0b11 == 0b01, f"{label}: flags bits 7,6 are 0,1")


def roundtrips() -> int:
    n = 0
    for (pname, p), level in itertools.product(packages(), LEVELS):
        want, want_text = documents(p), documents_text(p)
        cfg = EnvelopeConfig(format=EnvelopeFormat.JSON, zstd=level)
        label = f"{pname}/zstd={level}"

        for encode, decode in [
            (p.to_bytes, Package.from_bytes),
            (p.to_bytes, read_envelope),
        ]:
            raw = encode(cfg)
            check(isinstance(raw, bytes), f"{label}: to_bytes gives bytes")
            check_header(label, raw[:10], EnvelopeFormat.JSON, level is not None)
            if level is not None:
                # the payload really is a zstd frame
                pyzstd.decompress(raw[10:])
            else:
                json.loads(raw[10:])
            back = decode(raw)
            check(documents(back) == want, f"{label}: bytes round trip (documents)")
            check(documents_text(back) == want_text, f"{label}: bytes round trip (text)")
            check(len(back.modules) == len(p.modules), f"{label}: module count")
            check(len(back.extensions) == len(p.extensions), f"{label}: ext count")
            # the original is not disturbed by encoding
            check(documents_text(p) == want_text, f"{label}: original unchanged")
            # and a second generation is stable
            again = decode(back.to_bytes(cfg))
            check(documents_text(again) == want_text, f"{label}: second generation")
            n += 1

        if level is None:
            for decode in (Package.from_str, read_envelope_str):
                text = p.to_str(cfg)
                check(isinstance(text, str), f"{label}: to_str gives str")
                check_header(
                    label + "/str", text.encode("utf-8")[:10], EnvelopeFormat.JSON, False
                )
                back = decode(text)
                check(documents(back) == want, f"{label}: str round trip (documents)")
                check(documents_text(back) == want_text, f"{label}: str round trip")
                check(back.to_str(cfg) == text, f"{label}: str second generation")
                n += 1

    # default configurations
    for pname, p in packages():
        want = documents_text(p)
        check(documents_text(Package.from_bytes(p.to_bytes())) == want, f"{pname}: default bytes")
        check(documents_text(Package.from_str(p.to_str())) == want, f"{pname}: default str")
        check(
            documents_text(Package.from_bytes(p.to_bytes(EnvelopeConfig.BINARY))) == want,
            f"{pname}: BINARY",
        )
        check(
            documents_text(Package.from_str(p.to_str(EnvelopeConfig.TEXT))) == want,
            f"{pname}: TEXT",
        )
        n += 4
    return n


# ---------------------------------------------------------------- text offer


def text_only_for_printable() -> None:
    p = packages()[3][1]
    for fmt in EnvelopeFormat:
        printable = 0x20 <= fmt.value < 0x7F
        check(fmt.ascii_printable() == (fmt is EnvelopeFormat.JSON), f"{fmt}: printable")
        check(not fmt.ascii_printable() or printable, f"{fmt}: printable value")
        if not fmt.ascii_printable():
            for level in (None, 0):
                try:
                    p.to_str(EnvelopeConfig(format=fmt, zstd=level))
                except ValueError:
                    pass
                except Exception as e:  # noqa: BLE001
                    check(False, f"{fmt}: to_str raised {type(e).__name__}")
                else:
                    check(False, f"{fmt}: to_str offered for a binary format")


# ---------------------------------------------------------------- header decoder


def header_decoder() -> int:
    known = {f.value: f for f in EnvelopeFormat}
    n = 0
    for fmt_byte in range(256):
        for flags in range(256):
            data = MAGIC_NUMBERS + bytes([fmt_byte, flags])
            for tail in (b"", b"{}"):
                try:
                    h = EnvelopeHeader.from_bytes(data + tail)
                except ValueError:
                    check(fmt_byte not in known, f"{fmt_byte},{flags}: known format rejected")
                except Exception as e:  # noqa: BLE001
                    check(False, f"{fmt_byte},{flags}: raised {type(e).__name__}")
                else:
                    check(fmt_byte in known, f"{fmt_byte},{flags}: unknown format accepted")
                    if fmt_byte in known:
                        check(h.format is known[fmt_byte], f"{fmt_byte},{flags}: format")
                        check(h.zstd is bool(flags & 1), f"{fmt_byte},{flags}: zstd bit")
            if fmt_byte not in known:
                # ... and the package decoder does not decode it either
                for decode in (read_envelope, Package.from_bytes):
                    try:
                        decode(data + b'{"modules":[],"extensions":[]}')
                    except ValueError:
                        pass
                    else:
                        check(False, f"{fmt_byte},{flags}: decoded")
            n += 1

    # header written by the encoder is read back
    for fmt in EnvelopeFormat:
        for z in (False, True):
            raw = EnvelopeHeader(fmt, z).to_bytes()
            check_header(f"hdr {fmt} {z}", raw, fmt, z)
            h = EnvelopeHeader.from_bytes(raw)
            check(h == EnvelopeHeader(fmt, z), f"hdr {fmt} {z}: round trip")
        for level in LEVELS:
            raw = EnvelopeConfig(fmt, level)._make_header().to_bytes()
            check_header(f"cfg {fmt} {level}", raw, fmt, level is not None)

    # truncations and foreign magic numbers
    good = packages()[3][1].to_bytes()
    goodz = packages()[3][1].to_bytes(EnvelopeConfig(EnvelopeFormat.JSON, 0))
    for whole in (good, goodz):
        for k in range(10):
            for decode in (EnvelopeHeader.from_bytes, read_envelope, Package.from_bytes):
                try:
                    decode(whole[:k])
                except ValueError:
                    pass
                except Exception as e:  # noqa: BLE001
                    check(False, f"truncation {k}: raised {type(e).__name__}")
                else:
                    check(False, f"truncation {k}: accepted")
        for k in range(10):
            try:
                Package.from_str(whole[:k].decode("ascii"))
            except ValueError:
                pass
            else:
                check(False, f"str truncation {k}: accepted")
        for i in range(8):
            for delta in (1, 0x20, 0x80):
                bad = bytearray(whole)
                bad[i] = (bad[i] + delta) % 256
                for decode in (EnvelopeHeader.from_bytes, read_envelope, Package.from_bytes):
                    try:
                        decode(bytes(bad))
                    except ValueError:
                        pass
                    except Exception as e:  # noqa: BLE001
                        check(False, f"magic {i}: raised {type(e).__name__}")
                    else:
                        check(False, f"magic byte {i} changed: accepted")
    for other in (b"", b"HUGR", b"hugrihjv?@{}", b"\x28\xb5\x2f\xfd" * 5, b"{" * 40):
        try:
            Package.from_bytes(other)
        except ValueError:
            pass
        else:
            check(False, f"{other!r}: accepted")
    return n


# ---------------------------------------------------------------- what differs


def observable() -> None:
    """Print things that a change may alter without touching the property."""
    p = packages()[3][1]
    raw = p.to_bytes()
    rawz = p.to_bytes(EnvelopeConfig(EnvelopeFormat.JSON, 0))
    print("  uncompressed envelope :", len(raw), "bytes; pure ASCII:", raw.isascii())
    print("  compressed envelope   :", len(rawz), "bytes; frame header", rawz[10:16].hex())
    print("  payload starts        :", raw[10:60])
    at = raw.find(b'"name":"f')
    print("  a non-ASCII name in it:", raw[at : at + 34])
    print("  header str/repr       :", str(EnvelopeHeader(EnvelopeFormat.JSON, True)))
    for bad in (b"HUGR", b"XXXXXXXX?@{}", MAGIC_NUMBERS + b"\x07@{}", MAGIC_NUMBERS + b"\x01@"):
        try:
            Package.from_bytes(bad)
        except ValueError as e:
            mro = [c.__name__ for c in type(e).__mro__ if c not in (object, BaseException)]
            print(f"  from_bytes({bad!r}) -> {' < '.join(mro)}: {e}")
    try:
        p.to_str(EnvelopeConfig(EnvelopeFormat.JSON, 0))
    except ValueError as e:
        print(f"  to_str(zstd=0) -> {type(e).__name__}: {str(e)[:90]}")
    try:
        cfg = EnvelopeConfig(EnvelopeFormat.JSON, "3")  # type: ignore[arg-type]
        print(f"  EnvelopeConfig(zstd='3') -> accepted: {cfg!r}")
    except Exception as e:  # noqa: BLE001
        print(f"  EnvelopeConfig(zstd='3') -> {type(e).__name__}: {e}")
    extra = sorted(
        n
        for n in ("EnvelopeError", "config", "append_extensions", "model_version")
        if hasattr(sys.modules["hugr.envelope"], n)
        or hasattr(EnvelopeHeader, n)
        or hasattr(EnvelopeFormat, n)
    )
    print("  additional names      :", extra)


def main() -> int:
    n1 = roundtrips()
    text_only_for_printable()
    n2 = header_decoder()
    print(f"{n1} round trips, {n2} format/flag byte pairs")
    print("observable details (free to differ between versions):")
    observable()
    if FAILURES:
        print("FAIL")
        for f in sorted(set(FAILURES))[:40]:
            print("  -", f)
        return 1
    print("PASS")
    return 0


if __name__ == "__main__":
    sys.exit(main())
