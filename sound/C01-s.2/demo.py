"""Demo for change 2 (observable changes outside the statement: error message
wording, a more specific exception class, repr of the builders, debug logging,
a new read-only property, rejection of negative case indices).

Part A builds a range of HUGRs through the public builders (every input port
wired once, every linear value consumed exactly once, no builder call raises),
serializes them and checks the serialized form against a Python
re-implementation of the rules of `hugr validate`.  It must print PASS on the
clean tree and with the change applied.

Part B prints the things that differ between the two trees.  None of them is
something the property talks about.

Run: PYTHONPATH=/tmp/sf-C01/hugr-py/src /venv/bin/python demo.py
"""

# ---------------------------------------------------------------------------
# Part 1: an independent re-implementation, in Python, of the validity rules
# that `hugr validate` enforces (hugr-core/src/hugr/validate.rs and
# hugr-core/src/ops/validate.rs).  It looks ONLY at the serialized HUGR: the
# JSON text is parsed for the hierarchy and the edges, and the operations are
# read back with Hugr.load_json so that their signatures can be queried.
# ---------------------------------------------------------------------------
import hashlib
import json
import random
import sys

from hugr import ops, tys, val
from hugr.build.cfg import Cfg
from hugr.build.cond_loop import Conditional, TailLoop
from hugr.build.dfg import Dfg
from hugr.build.function import Module
from hugr.build.tracked_dfg import TrackedDfg
from hugr.hugr import Hugr
from hugr.hugr.node_port import Node
from hugr.std.int import INT_T, DivMod, IntVal
from hugr.std.logic import Not


class Invalid(Exception):
    pass


def need(cond, msg):
    if not cond:
        raise Invalid(msg)


DF_PARENTS = (ops.DFG, ops.FuncDefn, ops.Case, ops.TailLoop, ops.DataflowBlock)
ALIASES = ops.AliasDecl | ops.AliasDefn
V, C, F, O, CF = "value", "const", "function", "order", "cf"


def is_df_child(op):
    return not isinstance(
        op, ops.FuncDecl | ops.Module | ops.Case | ops.DataflowBlock | ops.ExitBlock
    )


def is_cf_child(op):
    return isinstance(
        op, ops.DataflowBlock | ops.ExitBlock | ops.Const | ops.FuncDefn | ALIASES
    )


def is_module_child(op):
    return isinstance(op, ops.FuncDefn | ops.FuncDecl | ops.Const | ALIASES)


def port_layout(op):
    """(incoming kinds, outgoing kinds) of an operation, in port order: value
    ports, then the static input, then the state order port."""
    if isinstance(op, ops.Input):
        return [], [(V, t) for t in op.types] + [(O,)]
    if isinstance(op, ops.Output):
        return [(V, t) for t in op.types] + [(O,)], []
    if isinstance(op, ops.Call):
        sig = op.instantiation
        return (
            [(V, t) for t in sig.input] + [(F, op.signature), (O,)],
            [(V, t) for t in sig.output] + [(O,)],
        )
    if isinstance(op, ops.LoadConst):
        return [(C, op.type_), (O,)], [(V, op.type_), (O,)]
    if isinstance(op, ops.LoadFunc):
        return [(F, op.signature), (O,)], [(V, op.instantiation), (O,)]
    if isinstance(op, ops.Const):
        return [], [(C, op.val.type_())]
    if isinstance(op, ops.FuncDefn | ops.FuncDecl):
        return [], [(F, op.signature)]
    if isinstance(op, ops.DataflowBlock):
        return [(CF,)], [(CF,)] * len(op.sum_ty.variant_rows)
    if isinstance(op, ops.ExitBlock):
        return [(CF,)], []
    if isinstance(op, ops.Case | ops.Module | ALIASES):
        return [], []
    sig = op.outer_signature()  # every remaining operation is a dataflow op
    return (
        [(V, t) for t in sig.input] + [(O,)],
        [(V, t) for t in sig.output] + [(O,)],
    )


def copyable(ty):
    return ty.type_bound() == tys.TypeBound.Copyable


def free_vars(ty, acc):
    if isinstance(ty, tys.Variable | tys.RowVariable):
        acc.append(ty)
    elif isinstance(ty, tys.Sum):
        for row in ty.variant_rows:
            for t in row:
                free_vars(t, acc)
    elif isinstance(ty, tys.FunctionType):
        for t in [*ty.input, *ty.output]:
            free_vars(t, acc)
    elif isinstance(ty, tys.ExtType | tys.Opaque):
        for a in ty.args:
            if isinstance(a, tys.TypeTypeArg):
                free_vars(a.ty, acc)
    return acc


def check_value(v):
    """sum / tuple constants inhabit their declared type"""
    if isinstance(v, val.Sum):
        rows = v.type_().variant_rows
        need(0 <= v.tag < len(rows), f"constant tag {v.tag} not in {rows}")
        row = rows[v.tag]
        need(len(row) == len(v.vals), f"constant {v} has the wrong arity for {row}")
        for x, t in zip(v.vals, row, strict=True):
            need(x.type_() == t, f"constant field {x}: {x.type_()} is not {t}")
            check_value(x)
    elif isinstance(v, val.Function):
        validate_json(v.body.to_json())


def validate_json(js):
    d = json.loads(js)
    h = Hugr.load_json(js)  # also checks the JSON against the pydantic schema
    n = len(d["nodes"])
    need(n > 0, "empty")
    op = [h[Node(i)].op for i in range(n)]
    parent = [d["nodes"][i]["parent"] for i in range(n)]
    need([i for i in range(n) if parent[i] == i] == [0], "root must be node 0 only")
    children = {i: [] for i in range(n)}
    for i in range(1, n):
        need(0 <= parent[i] < n, "parent out of range")
        children[parent[i]].append(i)

    def ancestors(i):  # i, parent(i), ... root ; fails on a cycle
        out = [i]
        while out[-1] != 0:
            out.append(parent[out[-1]])
            need(len(out) <= n, "hierarchy is not a tree")
        return out

    for i in range(n):
        ancestors(i)

    layout = [port_layout(o) for o in op]
    in_links = {}  # (node, offset) -> [(src, srcoff)]
    out_links = {}
    for (s, so), (t, to) in d["edges"]:
        need(so is not None and to is not None, "edge without offset")
        need(0 <= s < n and 0 <= t < n, "edge endpoint out of range")
        # port counts equal to each operation's signature: no edge may use a
        # port beyond those the signature gives the operation
        need(0 <= so < len(layout[s][1]), f"node {s} {op[s]} has no out port {so}")
        need(0 <= to < len(layout[t][0]), f"node {t} {op[t]} has no in port {to}")
        out_links.setdefault((s, so), []).append((t, to))
        in_links.setdefault((t, to), []).append((s, so))
    need(not layout[0][0] or not any(k[0] == 0 for k in in_links), "root has edges")
    need(not any(k[0] == 0 for k in out_links), "root has edges")

    # ---- hierarchy: permitted parent/child pairs, mandated positions -------
    for p in range(n):
        po, ch = op[p], children[p]
        if isinstance(po, ops.Module):
            for c in ch:
                need(is_module_child(op[c]), f"{op[c]} not allowed in a Module")
        elif isinstance(po, DF_PARENTS):
            need(len(ch) >= 2, f"dataflow parent {po} without Input/Output")
            for c in ch:
                need(is_df_child(op[c]), f"{op[c]} not allowed in {po}")
            sig = po.inner_signature()
            need(isinstance(op[ch[0]], ops.Input), f"first child of {po} not Input")
            need(isinstance(op[ch[1]], ops.Output), f"second child of {po} not Output")
            need(op[ch[0]].types == sig.input, f"Input row of {po}: {op[ch[0]].types}")
            need(op[ch[1]].types == sig.output, f"Output row of {po}: {op[ch[1]].types}")
            for c in ch[2:]:
                need(not isinstance(op[c], ops.Input | ops.Output), "inner Input/Output")
        elif isinstance(po, ops.CFG):
            need(len(ch) >= 2, "CFG without entry/exit")
            for c in ch:
                need(is_cf_child(op[c]), f"{op[c]} not allowed in a CFG")
            need(isinstance(op[ch[0]], ops.DataflowBlock), "first CFG child not a block")
            need(isinstance(op[ch[1]], ops.ExitBlock), "second CFG child not the exit")
            need(op[ch[0]].inputs == po.signature.input, "entry block inputs")
            need(op[ch[1]].cfg_outputs == po.signature.output, "exit block outputs")
            for c in ch[2:]:
                need(not isinstance(op[c], ops.ExitBlock), "second exit block")
        elif isinstance(po, ops.Conditional):
            need(len(ch) >= 1, "Conditional without cases")
            need(len(ch) == len(po.sum_ty.variant_rows), "number of cases")
            for k, c in enumerate(ch):
                need(isinstance(op[c], ops.Case), f"{op[c]} not allowed in Conditional")
                sig = op[c].inner_signature()
                need(sig.input == po.nth_inputs(k), f"case {k} inputs {sig.input}")
                need(sig.output == po.outputs, f"case {k} outputs {sig.output}")
        else:
            need(not ch, f"non-container {po} has children")
        if isinstance(po, ops.Const):
            check_value(po.val)

    # ---- type variables are bound by the closest enclosing FuncDefn --------
    for i in range(1, n):
        params = []
        for a in ancestors(i):
            if isinstance(op[a], ops.FuncDefn):
                params = op[a].params
                break
        for kind in layout[i][0] + layout[i][1]:
            if kind[0] == V:
                for var in free_vars(kind[1], []):
                    need(var.idx < len(params), f"unbound type variable {var} at {i}")
                    prm = params[var.idx]
                    need(isinstance(prm, tys.TypeTypeParam), f"{var} is not a type")
                    need(prm.bound == var.bound, f"bound of {var} differs from {prm}")

    # ---- dominators of every CFG ------------------------------------------
    dom_cache = {}

    def dominators(cfg):
        if cfg not in dom_cache:
            blocks = [c for c in children[cfg] if layout[c][0][:1] == [(CF,)]]
            pred = {b: set() for b in blocks}
            for b in blocks:
                for k in range(len(layout[b][1])):
                    for t, _ in out_links.get((b, k), []):
                        pred[t].add(b)
            entry = children[cfg][0]
            dom = {b: set(blocks) for b in blocks}
            dom[entry] = {entry}
            changed = True
            while changed:
                changed = False
                for b in blocks:
                    if b == entry:
                        continue
                    ps = [dom[p] for p in pred[b]]
                    new = (set.intersection(*ps) if ps else set()) | {b}
                    if new != dom[b]:
                        dom[b], changed = new, True
            dom_cache[cfg] = dom
        return dom_cache[cfg]

    # ---- ports and edges ---------------------------------------------------
    for i in range(1, n):
        ins, outs = layout[i]
        for k, kind in enumerate(ins):
            links = in_links.get((i, k), [])
            if kind[0] in (V, C, F):
                need(len(links) == 1, f"in port {k} of {i} {op[i]}: {len(links)} links")
        for k, kind in enumerate(outs):
            links = out_links.get((i, k), [])
            linear = kind[0] == CF or (kind[0] == V and not copyable(kind[1]))
            if linear:
                need(len(links) == 1, f"out port {k} of {i} {op[i]}: {len(links)} links")
            for t, to in links:
                other = layout[t][0][to]
                need(other == kind, f"edge {i}.{k}->{t}.{to}: {kind} vs {other}")
                # locality
                if parent[i] == parent[t]:
                    if kind[0] == CF:
                        rows = op[i].nth_outputs(k)
                        tgt = op[t].inputs if isinstance(op[t], ops.DataflowBlock) else op[t].cfg_outputs
                        need(rows == tgt, f"control flow edge {i}.{k}->{t}: {rows} vs {tgt}")
                    continue
                static = kind[0] in (C, F)
                need(
                    static or (kind[0] == V and copyable(kind[1])),
                    f"non-local edge {i}.{k}->{t}.{to} of kind {kind}",
                )
                chain = ancestors(t)[1:]  # parent(t), grandparent, ..., root
                entered_func = False
                ok = False
                for anc, anc_parent in zip(chain, chain[1:], strict=False):
                    if not static and isinstance(op[anc], ops.FuncDefn):
                        entered_func = True
                    if anc_parent == parent[i]:  # Ext edge
                        need(not entered_func, f"value edge {i}->{t} enters a function")
                        if not static:
                            order = len(outs) - 1
                            need(
                                outs[order] == (O,)
                                and any(x == anc for x, _ in out_links.get((i, order), [])),
                                f"no state order edge {i}->{anc} for the edge {i}.{k}->{t}.{to}",
                            )
                        ok = True
                        break
                    if not static and anc_parent == parent[parent[i]] and parent[i] != 0:
                        need(isinstance(op[anc_parent], ops.CFG), "Dom edge outside a CFG")
                        need(not entered_func, f"value edge {i}->{t} enters a function")
                        need(
                            parent[i] in dominators(anc_parent)[anc],
                            f"block {parent[i]} does not dominate {anc} (edge {i}->{t})",
                        )
                        ok = True
                        break
                need(ok, f"edge {i}.{k}->{t}.{to} relates unrelated regions")

    # ---- every dataflow region is acyclic ---------------------------------
    for p in range(n):
        if not isinstance(op[p], DF_PARENTS):
            continue
        ch = set(children[p])
        indeg = {c: 0 for c in ch}
        succ = {c: [] for c in ch}
        for (s, _), tgts in out_links.items():
            if s in ch:
                for t, _ in tgts:
                    if t in ch:
                        succ[s].append(t)
                        indeg[t] += 1
        todo = [c for c in ch if indeg[c] == 0]
        seen = 0
        while todo:
            c = todo.pop()
            seen += 1
            for t in succ[c]:
                indeg[t] -= 1
                if indeg[t] == 0:
                    todo.append(t)
        need(seen == len(ch), f"region of {p} {op[p]} has a cycle")
    return d


def canonical_digest(d):
    """Digest of the serialized HUGR up to the freedoms of the format: nodes are
    renumbered by walking the hierarchy (children in their order), edges are
    taken as a multiset, JSON keys are sorted."""
    n = len(d["nodes"])
    children = {i: [] for i in range(n)}
    for i in range(1, n):
        children[d["nodes"][i]["parent"]].append(i)
    order, stack = [], [0]
    while stack:
        x = stack.pop()
        order.append(x)
        stack.extend(reversed(children[x]))
    new = {old: k for k, old in enumerate(order)}
    nodes = []
    for old in order:
        nd = dict(d["nodes"][old])
        nd["parent"] = new[nd["parent"]]
        nodes.append(nd)
    edges = sorted([[new[s], so], [new[t], to]] for (s, so), (t, to) in d["edges"])
    meta = d.get("metadata") or [None] * n
    meta = [meta[old] if old < len(meta) else None for old in order]
    text = json.dumps({"nodes": nodes, "edges": edges, "metadata": meta}, sort_keys=True)
    return hashlib.sha256(text.encode()).hexdigest()[:16]


def raw_digest(js):
    return hashlib.sha256(js.encode()).hexdigest()[:16]


# ---------------------------------------------------------------------------
# Part 2: builder programs.  Every input port is wired once, every linear value
# is consumed exactly once, no builder call raises.
# ---------------------------------------------------------------------------
Q = tys.Qubit
H = ops.Custom("H", tys.FunctionType.endo([Q]), extension="demo.quantum")
CX = ops.Custom("CX", tys.FunctionType.endo([Q, Q]), extension="demo.quantum")
MEASURE = ops.Custom("Measure", tys.FunctionType([Q], [Q, tys.Bool]), extension="demo.quantum")
ADD = ops.Custom("iadd", tys.FunctionType([INT_T, INT_T], [INT_T]), extension="demo.arith")
EITHER_T = tys.Either([Q], [Q, INT_T])


def prog_dfg_linear_and_copies():
    d = Dfg(Q, Q, tys.Bool, INT_T)
    q0, q1, b, i = d.inputs()
    q0 = d.add_op(H, q0)
    cx = d.add(CX(q0, q1))
    m = d.add(MEASURE(cx[0]))
    nb = d.add(Not(b))
    nnb = d.add(Not(nb))  # nb is copied: used here and in the outputs
    dm = d.add(DivMod(i, i))  # only the first of the two outputs is used
    tup = d.add(ops.MakeTuple()(nb, dm[0], m[1]))
    un = d.add_op(ops.UnpackTuple(), tup)
    some = d.add_op(ops.Some(tys.Bool, INT_T), un[0], un[1])
    d.add_state_order(nb, dm)
    d.set_outputs(m[0], cx[1], nb, nnb, un[2], some)
    return d.hugr


def prog_nested_ext_wires():
    d = Dfg(tys.Bool, INT_T)
    b, i = d.inputs()
    dm = d.add(DivMod(i, i))
    with d.add_nested(b) as mid:
        (mb,) = mid.inputs()
        s1 = mid.add(ADD(dm[0], dm[1]))  # two Ext wires from one outer node
        with mid.add_nested() as deep:
            s2 = deep.add(ADD(s1, dm[1]))  # from the middle and from the outside
            s3 = deep.add(ADD(s2, i))  # from the outermost Input node
            k = deep.load(IntVal(7))
            deep.set_outputs(deep.add(ADD(s3, k)), deep.add(Not(mb)))
        mid.set_outputs(*deep[:2], mb)
    d.set_outputs(*mid[:3], dm[1])
    return d.hugr


def _basic_cond(c):
    with c.add_case(1) as c1:
        q, _i, b = c1.inputs()
        c1.set_outputs(c1.add(H(q)), b)
    with c.add_case(0) as c0:
        q, b = c0.inputs()
        c0.set_outputs(q, c0.add(Not(b)))


def _h_loop(tl):
    q, b = tl.add(MEASURE(tl.add(H(tl.input_node[0]))))[:]
    tl.set_loop_outputs(b, q)


def _branchy_cfg(cfg):
    """entry -> (left | right) -> merge -> exit, with Dom edges from the entry"""
    with cfg.add_entry() as entry:
        b, u, i = entry.inputs()
        dm = entry.add(DivMod(i, i))
        entry.set_block_outputs(b, i)
    with cfg.add_successor(entry[0]) as left:
        (li,) = left.inputs()
        left.set_single_succ_outputs(left.add(ADD(li, dm[0])))  # Dom edge
    with cfg.add_successor(entry[1]) as right:
        (ri,) = right.inputs()
        with right.add_nested(ri) as inner:
            inner.set_outputs(inner.add(ADD(inner.inputs()[0], inner.load(IntVal(2)))))
        right.set_single_succ_outputs(inner)
    with cfg.add_successor(left[0]) as merge:
        (mi,) = merge.inputs()
        merge.set_block_outputs(u, mi, dm[1])  # two Dom edges (u, dm[1])
    cfg.branch(right[0], merge)
    cfg.branch_exit(merge[0])


def prog_insert_everything():
    inner = Dfg(tys.Bool, INT_T)
    ib, ii = inner.inputs()
    with inner.add_nested() as nn:
        nn.set_outputs(nn.add(Not(ib)), nn.add(ADD(ii, ii)))  # Ext wires
    inner.set_outputs(nn[0], nn[1], ib)

    cfg = Cfg(tys.Bool, tys.Unit, INT_T)
    _branchy_cfg(cfg)

    cond = Conditional(EITHER_T, [tys.Bool])
    _basic_cond(cond)

    tl = TailLoop([], [Q])
    _h_loop(tl)

    d = Dfg(Q, tys.Bool, INT_T)
    q, b, i = d.inputs()
    n1 = d.insert_nested(inner, b, i)
    u = d.load(val.Unit)
    n2 = d.insert_cfg(cfg, n1[0], u, n1[1])
    tagged = d.add(ops.Left(EITHER_T)(q))
    n3 = d.insert_conditional(cond, tagged, n1[2])
    n4 = d.insert_tail_loop(tl, [], [n3[0]])
    d.set_outputs(n4, n3[1], *n2[:2])
    return d.hugr


def prog_module_functions():
    m = Module()
    poly_id = m.declare_function(
        "id",
        tys.PolyFuncType(
            [tys.TypeTypeParam(tys.TypeBound.Any)],
            tys.FunctionType.endo([tys.Variable(0, tys.TypeBound.Any)]),
        ),
    )
    k = m.add_const(IntVal(5))

    rec = m.define_function("rec", [Q, INT_T], [Q])
    rq, ri = rec.inputs()
    rec.set_outputs(rec.call(rec, rq, rec.add(ADD(ri, rec.load(k)))))

    var = tys.Variable(0, tys.TypeBound.Copyable)
    dup = m.define_function("dup", [var], type_params=[tys.TypeTypeParam(tys.TypeBound.Copyable)])
    (x,) = dup.inputs()
    dup.set_outputs(x, dup.add(ops.Noop()(x)))

    main = m.define_main([Q, INT_T])
    q, i = main.inputs()
    local = main.define_function("local", [INT_T], parent=main.parent_node)
    local.set_outputs(local.add(ADD(local.inputs()[0], local.load(k))))
    inst = tys.FunctionType.endo([Q])
    c1 = main.call(poly_id, q, instantiation=inst, type_args=[Q.type_arg()])
    with main.add_nested(c1) as body:
        lf = body.load_function(rec)
        j = body.call(local, i)  # static edge into a nested region, Ext wire i
        body.set_outputs(body.add(ops.CallIndirect()(lf, body.inputs()[0], j)), j)
    dup_inst = tys.FunctionType([INT_T], [INT_T, INT_T])
    c2 = main.call(dup, body[1], instantiation=dup_inst, type_args=[INT_T.type_arg()])
    main.add_state_order(c1, c2)
    main.set_outputs(body[0], c2[0], c2[1])
    return m.hugr


def prog_cfg_dominance_and_loop():
    d = Dfg(tys.Bool, INT_T)
    b, i = d.inputs()
    u = d.load(val.Unit)
    with d.add_cfg(b, u, i) as cfg:
        _branchy_cfg(cfg)
    # a second CFG with a back edge and differently typed successors
    with d.add_cfg() as cfg2:
        with cfg2.add_entry() as entry:
            sum_ty = tys.Sum([[INT_T], [tys.Bool]])
            entry.set_block_outputs(entry.add(ops.Tag(0, sum_ty)(entry.load(IntVal(34)))))
        with cfg2.add_successor(entry[0]) as head:
            (hi,) = head.inputs()
            again = tys.Sum([[INT_T], []])
            head.set_block_outputs(head.add(ops.Tag(0, again)(hi)), head.load(val.TRUE))
        with cfg2.add_successor(head[0]) as body:
            (bi, _flag) = body.inputs()
            body.set_single_succ_outputs(body.add(ADD(bi, bi)))
        cfg2.branch(body[0], head)  # back edge
        cfg2.branch_exit(entry[1])
        cfg2.branch_exit(head[1])
    d.set_outputs(*cfg[:3], cfg2)
    return d.hugr


def prog_conditional_if_else_loop():
    h = Dfg(Q, tys.Tuple(tys.Bool, tys.Bool))
    q, t = h.inputs()
    b1, _unused = h.add_op(ops.UnpackTuple(), t)
    with h.add_tail_loop([q], [h.load(val.TRUE)]) as tl:
        lq, lb = tl.inputs()
        with tl.add_if(lb, lq) as if_:
            (iq,) = if_.inputs()
            if_.set_outputs(if_.add(ops.Continue(EITHER_T)(iq)))
        with if_.add_else() as else_:
            (eq,) = else_.inputs()
            else_.set_outputs(else_.add(ops.Break(EITHER_T)(eq, else_.load(IntVal(1)))))
        tl.set_loop_outputs(else_.conditional_node, lb)
    cond = h.add_conditional(b1, tl[0])
    with cond.add_case(0) as case:
        (cq,) = case.inputs()
        case.set_outputs(cq, b1, tl[1])  # Ext wires into a Case
    with cond.add_case(1) as case:
        (cq,) = case.inputs()
        case.set_outputs(case.add(H(cq)), case.add(Not(b1)), tl[1])
    tagged = h.add(ops.Right(EITHER_T)(cond[0], cond[2]))
    with h.add_conditional(tagged, cond[1]) as c2:
        _basic_cond(c2)
    h.set_outputs(*c2[:2], tl[2])
    return h.hugr


def prog_tracked():
    d = TrackedDfg(Q, Q, tys.Bool, track_inputs=False)
    q0, q1, b = d.inputs()
    i0, i1 = d.track_wires([q0, q1])
    d.extend(H(i0), CX(i0, i1), H(i1))
    m = d.add(MEASURE(i1))
    d.add(CX(i1, i0))
    nb = d.add(Not(b))
    w = d.untrack_wire(i0)
    d.track_wire(d.add(H(w)))
    d.set_indexed_outputs(1, 2, m[1], nb)
    return d.hugr


def prog_constants():
    fn = Dfg(INT_T)
    fn.set_outputs(fn.add(ADD(fn.inputs()[0], fn.load(IntVal(1)))))
    s_ty = tys.Sum([[tys.Bool], [INT_T, tys.Unit], []])
    values = [
        val.Sum(1, s_ty, [IntVal(3), val.Unit]),
        val.Sum(2, s_ty, []),
        val.Tuple(val.TRUE, IntVal(9), val.Tuple(val.FALSE)),
        val.Some(val.TRUE, val.Tuple()),
        val.None_(INT_T),
        val.Left([IntVal(1)], [tys.Bool, tys.Bool]),
        val.Right([INT_T], [val.FALSE, val.Sum(0, s_ty, [val.TRUE])]),
        val.UnitSum(2, 4),
        val.Function(fn.hugr),
    ]
    d = Dfg()
    loads = [d.load(v) for v in values]
    with d.add_nested() as inner:
        shared = d.add_const(values[2])  # constant in the outer region
        inner.set_outputs(inner.load(shared), inner.load(values[0], const_parent=d.parent_node))
    d.set_outputs(*loads, *inner[:2], d.add(ops.CallIndirect()(loads[-1], d.load(IntVal(0)))))
    return d.hugr


def prog_random(seed):
    """A random nest of DFG / Conditional / TailLoop / CFG regions that passes a
    qubit (linear) and an int (copyable) around and uses non-local int wires."""
    rng = random.Random(seed)

    def region(b, q, i, outer, depth):
        """extend dataflow builder `b`; returns (q, i) wires local to `b`"""
        for _ in range(rng.randint(1, 3)):
            kind = rng.choice(["op", "dfg", "cond", "loop", "cfg", "ins"]) if depth < 3 else "op"
            extra = rng.choice(outer) if outer and rng.random() < 0.7 else i
            if kind == "op":
                q = b.add(H(q))
                i = b.add(ADD(i, extra))
            elif kind == "dfg":
                with b.add_nested(q) as n:
                    nq, ni = region(n, n.inputs()[0], rng.choice([*outer, i]), [*outer, i], depth + 1)
                    n.set_outputs(nq, ni)
                q, i = n[0], n[1]
            elif kind == "ins":
                n = Dfg(Q, INT_T)
                nq, ni = region(n, *n.inputs(), [], depth + 1)
                n.set_outputs(nq, ni)
                node = b.insert_nested(n, q, extra)
                q, i = node[0], node[1]
            elif kind == "cond":
                flag = b.load(val.TRUE if rng.random() < 0.5 else val.FALSE)
                with b.add_if(flag, q) as if_:
                    nq, ni = region(if_, if_.inputs()[0], i, [*outer, i], depth + 1)
                    if_.set_outputs(nq, ni)
                with if_.add_else() as else_:
                    nq, ni = region(else_, else_.inputs()[0], extra, [*outer, i], depth + 1)
                    else_.set_outputs(nq, ni)
                c = else_.conditional_node
                q, i = c[0], c[1]
            elif kind == "loop":
                with b.add_tail_loop([], [q, i]) as tl:
                    lq, li = tl.inputs()
                    nq, ni = region(tl, lq, li, [*outer, i], depth + 1)
                    m = tl.add(MEASURE(nq))
                    tl.set_loop_outputs(m[1], m[0], ni)
                q, i = tl[0], tl[1]
            else:
                with b.add_cfg(q, i) as cfg:
                    with cfg.add_entry() as entry:
                        eq, ei = entry.inputs()
                        nq, ni = region(entry, eq, ei, [*outer, i], depth + 1)
                        entry.set_single_succ_outputs(nq, ni)
                    with cfg.add_successor(entry[0]) as nxt:
                        xq, xi = nxt.inputs()
                        nxt.set_single_succ_outputs(nxt.add(H(xq)), nxt.add(ADD(xi, ni)))  # Dom
                    cfg.branch_exit(nxt[0])
                q, i = cfg[0], cfg[1]
        return q, i

    d = Dfg(Q, INT_T)
    q, i = d.inputs()
    q, i = region(d, q, i, [], 0)
    d.set_outputs(q, i)
    return d.hugr


PROGRAMS = [
    ("dfg: linear values, copies, partially used DivMod", prog_dfg_linear_and_copies),
    ("nested DFGs with Ext wires at depth 1 and 2", prog_nested_ext_wires),
    ("insert_nested / insert_cfg / insert_conditional / insert_tail_loop", prog_insert_everything),
    ("module: declare / define / call / load_function / poly / local fn", prog_module_functions),
    ("CFGs: Dom wires, merge, back edge, asymmetric successors", prog_cfg_dominance_and_loop),
    ("tail loop + if/else + conditionals with Ext wires into cases", prog_conditional_if_else_loop),
    ("tracked dataflow graph", prog_tracked),
    ("sum / tuple / function constants", prog_constants),
    *[(f"random nest, seed {s}", (lambda s=s: prog_random(s))) for s in range(12)],
]


def check_all(verbose=True):
    """Build every program, serialize it and validate what was serialized.
    Returns [(name, json, parsed json)]."""
    out = []
    for name, build in PROGRAMS:
        hugr = build()
        js = hugr.to_json()
        try:
            d = validate_json(js)
        except Invalid as e:
            print(f"FAIL  {name}: {e}")
            sys.exit(1)
        out.append((name, js, d))
        if verbose:
            print(
                f"valid {name:<70} nodes={len(d['nodes']):3d} edges={len(d['edges']):3d}"
                f" raw={raw_digest(js)} canonical={canonical_digest(d)}"
            )
    return out


def negative_controls():
    """The validator is not vacuous: it rejects HUGRs that break a rule."""
    bad = []
    # (1) Ext wire without the state order edge
    d = Dfg(tys.Bool)
    with d.add_nested() as n:
        n.set_outputs(n.add(Not(d.inputs()[0])))
    d.set_outputs(n)
    js = json.loads(d.hugr.to_json())
    js["edges"] = [e for e in js["edges"] if not (e[0][0] == 1 and e[1][0] == 3)]
    bad.append(("missing order edge", json.dumps(js)))
    # (2) a linear value used twice
    d = Dfg(Q)
    (q,) = d.inputs()
    d.set_outputs(d.add(H(q)), q)
    bad.append(("qubit copied", d.hugr.to_json()))
    # (3) an input port left unwired
    d = Dfg(tys.Bool)
    n = d.hugr.add_node(Not, d.parent_node, 1)
    d.set_outputs(n)
    bad.append(("unwired input", d.hugr.to_json()))
    # (4) a cycle
    d = Dfg()
    a = d.hugr.add_node(Not, d.parent_node, 1)
    b = d.hugr.add_node(Not, d.parent_node, 1)
    d.hugr.add_link(a.out(0), b.inp(0))
    d.hugr.add_link(b.out(0), a.inp(0))
    d.set_outputs()
    bad.append(("cycle", d.hugr.to_json()))
    # (5) a sum constant that does not inhabit its type
    d = Dfg()
    d.set_outputs(d.load(val.Sum(0, tys.Sum([[tys.Bool], []]), [IntVal(1)])))
    bad.append(("ill-typed constant", d.hugr.to_json()))
    # (6) no dominance
    cfg = Cfg(tys.Bool)
    with cfg.add_entry() as entry:
        entry.set_block_outputs(*entry.inputs())
    with cfg.add_successor(entry[0]) as left:
        nb = left.add(Not(left.load(val.TRUE)))
        left.set_single_succ_outputs()
    with cfg.add_successor(entry[1]) as right:
        right.set_single_succ_outputs(nb)
    cfg.branch_exit(right[0])
    cfg.branch(left[0], right)
    bad.append(("not dominated", cfg.hugr.to_json()))
    for name, js in bad:
        try:
            validate_json(js)
        except Invalid:
            continue
        print(f"FAIL  negative control '{name}' was accepted")
        sys.exit(1)
    print(f"validator rejects all {len(bad)} negative controls")


def attempt(label, thunk):
    try:
        result = thunk()
    except Exception as e:  # noqa: BLE001
        bases = " < ".join(c.__name__ for c in type(e).__mro__[:-2])
        print(f"  {label}:\n      raises {bases}: {e}")
    else:
        print(f"  {label}:\n      returns {result!r}")


def observable_differences():
    import logging

    print("repr of builders:")
    d = Dfg(tys.Bool)
    print("  ", repr(d))
    if_ = d.add_if(d.inputs()[0])
    print("  ", repr(if_))

    print("calls the statement excludes (a builder call raises):")
    m = Module()
    f = m.define_function("f", [tys.Bool], [Q])
    attempt("Function.set_outputs with the wrong types", lambda: f.set_outputs(f.inputs()[0]))
    attempt("Dfg.add with an integer wire index", lambda: Dfg(tys.Bool).add(Not(0)))
    k = m.add_const(val.TRUE)
    attempt("call of something that is not a function", lambda: f.call(k))
    attempt("a function node used as a dataflow wire", lambda: f.add(Not(f.parent_node)))

    def mismatched_cases():
        c = Conditional(tys.Bool, [tys.Bool])
        with c.add_case(0) as c0:
            c0.set_outputs(*c0.inputs())
        with c.add_case(1) as c1:
            c1.set_outputs()

    attempt("cases with different outputs", mismatched_cases)
    attempt("add_case(5) on a two-case conditional", lambda: Conditional(tys.Bool, []).add_case(5))
    attempt(
        "add_case(-1) on a two-case conditional",
        lambda: type(Conditional(tys.Bool, []).add_case(-1)).__name__,
    )

    print("new attribute:")
    attempt("Conditional(Bool, []).num_cases", lambda: Conditional(tys.Bool, []).num_cases)

    print("log output of logger 'hugr.build' at DEBUG while building two programs:")
    records = []
    handler = logging.Handler()
    handler.emit = records.append
    logger = logging.getLogger("hugr.build")
    logger.addHandler(handler)
    logger.setLevel(logging.DEBUG)
    prog_nested_ext_wires()
    prog_cfg_dominance_and_loop()
    logger.removeHandler(handler)
    print(f"   {len(records)} records")
    for r in records[:3]:
        print("   ", r.getMessage())


if __name__ == "__main__":
    print("== Part A: the property ==")
    check_all()
    negative_controls()
    print("== Part B: what differs (outside the property) ==")
    observable_differences()
    print("PASS")
