import html
import re
import sys
from collections import Counter

from hugr import ops, tys, val
from hugr.build.cfg import Cfg
from hugr.build.cond_loop import Conditional, TailLoop
from hugr.build.dfg import Dfg
from hugr.build.function import Module
from hugr.hugr import Hugr
from hugr.hugr.node_port import Node
from hugr.hugr.render import PALETTE, DotRenderer, Palette, RenderConfig
from hugr.ops import AsExtOp
from hugr.std.int import INT_T, DivMod, IntVal
from hugr.std.logic import Not
from hugr.tys import ValueKind

# --------------------------------------------------------------------------
# A small DOT reader: enough of the grammar for what the renderer may emit
# (statements in any order, any nesting of subgraphs, optional semicolons).
# --------------------------------------------------------------------------


def tokenize(src):
    toks = []
    i, n = 0, len(src)
    while i < n:
        c = src[i]
        if c.isspace() or c in ";,":
            i += 1
        elif src.startswith("//", i) or c == "#":
            while i < n and src[i] != "\n":
                i += 1
        elif src.startswith("/*", i):
            i = src.index("*/", i) + 2
        elif c in "{}[]=:":
            toks.append(("p", c))
            i += 1
        elif src.startswith("->", i):
            toks.append(("p", "->"))
            i += 2
        elif c == '"':
            j = i + 1
            buf = []
            while src[j] != '"':
                if src[j] == "\\" and src[j + 1] == '"':
                    buf.append('"')
                    j += 2
                else:
                    buf.append(src[j])
                    j += 1
            toks.append(("id", "".join(buf)))
            i = j + 1
        elif c == "<":
            depth, j = 0, i
            while True:
                if src[j] == "<":
                    depth += 1
                elif src[j] == ">":
                    depth -= 1
                    if depth == 0:
                        break
                j += 1
            toks.append(("html", src[i + 1 : j]))
            i = j + 1
        else:
            j = i
            while j < n and (src[j].isalnum() or src[j] in "_.-#"):
                if src.startswith("->", j):
                    break
                j += 1
            assert j > i, f"cannot tokenize at {src[i:i+20]!r}"
            toks.append(("id", src[i:j]))
            i = j
    return toks


class Dot:
    def __init__(self, src):
        self.toks = tokenize(src)
        self.pos = 0
        self.nodes = []  # (id, attrs, cluster path)
        self.edges = []  # ((node, port), (node, port), attrs)
        self.clusters = []  # cluster path (tuple of subgraph names)
        kind, word = self.next()
        assert word in ("digraph", "strict")
        if word == "strict":
            assert self.next()[1] == "digraph"
        self.name = ""
        if self.peek() != ("p", "{"):
            self.name = self.next()[1]
        self.expect("{")
        self.stmts(())
        assert self.pos == len(self.toks), "trailing tokens"

    def peek(self, k=0):
        return self.toks[self.pos + k] if self.pos + k < len(self.toks) else (None, None)

    def next(self):
        t = self.toks[self.pos]
        self.pos += 1
        return t

    def expect(self, p):
        t = self.next()
        assert t == ("p", p), f"expected {p}, got {t}"

    def attrs(self):
        out = {}
        while self.peek() == ("p", "["):
            self.next()
            while self.peek() != ("p", "]"):
                k = self.next()[1]
                self.expect("=")
                out[k] = self.next()
            self.next()
        return out

    def endpoint(self):
        kind, node = self.next()
        assert kind == "id"
        port = None
        if self.peek() == ("p", ":"):
            self.next()
            port = self.next()[1]
            if self.peek() == ("p", ":"):  # compass point
                self.next()
                self.next()
        return node, port

    def stmts(self, path):
        while self.peek() != ("p", "}"):
            kind, word = self.peek()
            if kind == "id" and word == "subgraph":
                self.next()
                name = self.next()[1]
                self.expect("{")
                self.clusters.append((*path, name))
                self.stmts((*path, name))
            elif kind == "id" and word in ("graph", "node", "edge") and self.peek(1) == (
                "p",
                "[",
            ):
                self.next()
                self.attrs()
            elif kind == "id" and self.peek(1) == ("p", "="):
                self.next()
                self.next()
                self.next()
            else:
                first = self.endpoint()
                chain = [first]
                while self.peek() == ("p", "->"):
                    self.next()
                    chain.append(self.endpoint())
                attrs = self.attrs()
                if len(chain) == 1:
                    assert first[1] is None
                    self.nodes.append((first[0], attrs, path))
                else:
                    for a, b in zip(chain, chain[1:]):
                        self.edges.append((a, b, attrs))
        self.next()


# --------------------------------------------------------------------------
# The property, clause by clause
# --------------------------------------------------------------------------


def snapshot(h):
    """Everything observable about a HUGR (to show rendering does not modify it)."""
    nodes = [
        None
        if d is None
        else (
            repr(d.op),
            d.parent,
            list(d.children),
            repr(d.metadata),
            d._num_inps,
            d._num_outs,
        )
        for d in h._nodes
    ]
    links = [(s.port, s.sub_offset, t.port, t.sub_offset) for s, t in h._links.items()]
    return (h.root, nodes, links, list(h._free_nodes), h.to_json())


def display_name(op, qualify):
    if isinstance(op, AsExtOp) and not qualify:
        return op.op_def().name
    return op.name()


def cluster_path(h, node):
    """Clusters a node statement has to sit in: one per ancestor (all of which have
    children), outermost first, and its own if it has children itself."""
    path = []
    n = node
    if h.children(n):
        path.append(f"cluster{n.idx}")
    while (p := h[n].parent) is not None:
        path.append(f"cluster{p.idx}")
        n = p
    return tuple(reversed(path))


def check_render(h, config, what):
    before = snapshot(h)
    dot = DotRenderer(config).render(h) if config is not None else h.render_dot()
    src = dot.source
    assert snapshot(h) == before, f"{what}: rendering modified the HUGR"
    qualify = config.qualify_op_name if config is not None else False
    d = Dot(src)

    # one node statement per HUGR node
    live = list(h)
    assert Counter(n for n, _, _ in d.nodes) == Counter(str(n.idx) for n in live), (
        f"{what}: node statements"
    )
    by_id = {n: (attrs, path) for n, attrs, path in d.nodes}
    for node in live:
        attrs, path = by_id[str(node.idx)]
        kind, label = attrs["label"]
        assert kind == "html"
        # ... carrying the display name
        name = html.escape(display_name(h[node].op, qualify))
        assert label.count("<B>") == 1 and f"<B>{name}</B>" in label, (
            f"{what}: name of {node}"
        )
        # ... one cell per input and output port
        cells = Counter(re.findall(r'PORT="([^"]*)"', label))
        want = Counter(
            [f"in.{i}" for i in range(h.num_in_ports(node))]
            + [f"out.{i}" for i in range(h.num_out_ports(node))]
        )
        assert cells == want, f"{what}: port cells of {node}: {cells} != {want}"
        assert label.count("<TD") - label.count("<TD>") == sum(want.values())
        # ... in the cluster its place in the hierarchy says
        assert path == cluster_path(h, node), f"{what}: {node} in {path}"

    # one cluster per node with children, nested as the hierarchy
    want_clusters = Counter(cluster_path(h, n) for n in live if h.children(n))
    assert Counter(d.clusters) == want_clusters, f"{what}: clusters"

    # one edge statement per link
    got = Counter()
    for (sn, sp), (tn, tp), attrs in d.edges:
        got[(sn, sp, tn, tp, attrs["label"][1])] += 1
    want = Counter()
    for src_port, tgt_port in h.links():
        k = h.port_kind(src_port)
        label = str(k.ty) if isinstance(k, ValueKind) else ""
        want[
            (
                str(src_port.node.idx),
                f"out.{src_port.offset}",
                str(tgt_port.node.idx),
                f"in.{tgt_port.offset}",
                label,
            )
        ] += 1
    assert got == want, f"{what}: edges\n got {got}\nwant {want}"
    return src, d


_COLOUR_ATTR = re.compile(
    r'((?:BGCOLOR|COLOR|bgcolor|fontcolor|color)=)("[^"]*"|[^\s\]]+)'
)


def strip_colours(src):
    return _COLOUR_ATTR.sub(r"\1*", src)


def check_all_configs(h, what):
    """Every configuration: three stock palettes and a home-made one, both
    name-qualification settings, and the default."""
    custom = Palette("c1", "c2", "c3", "c4", "c5", "c6", "c7", "c8")
    base_src, base = check_render(h, None, what)
    for pal_name, pal in [*PALETTE.items(), ("custom", custom)]:
        plain_src, plain = check_render(
            h, RenderConfig(palette=pal), f"{what}/{pal_name}"
        )
        # independent of the palette except for colours
        assert strip_colours(plain_src) == strip_colours(base_src), (
            f"{what}/{pal_name}: differs from the default in more than colours"
        )
        qual_src, qual = check_render(
            h, RenderConfig(palette=pal, qualify_op_name=True), f"{what}/{pal_name}/q"
        )
        # independent of qualification except for the extension prefix
        # (the names themselves were checked node by node in check_render)
        assert structure(h, plain, False) == structure(h, qual, True), (
            f"{what}/{pal_name}: qualified rendering differs in more than the prefix"
        )
    return base_src


def structure(h, d, qualify):
    """Everything in a parsed rendering, the display names blanked out."""
    nodes = []
    for n, attrs, path in d.nodes:
        name = html.escape(display_name(h[Node(int(n))].op, qualify))
        attrs = dict(attrs)
        kind, label = attrs["label"]
        attrs["label"] = (kind, label.replace(f"<B>{name}</B>", "<B>?</B>", 1))
        nodes.append((n, attrs, path))
    return (d.name, nodes, d.edges, d.clusters)


# --------------------------------------------------------------------------
# Inputs: well-formed builder programs
# --------------------------------------------------------------------------


def prog_dfg_order_const_meta():
    d = Dfg(tys.Bool, INT_T)
    b, i = d.inputs()
    d.hugr[d.hugr.root].metadata["name"] = 'top "<&>" level'
    n = d.add_op(Not, b)
    d.hugr[n].metadata["note"] = "a < b & c"
    d.hugr[n].metadata["list"] = [1, {"k": None}]
    c = d.load(IntVal(7))
    dm = d.add(DivMod(i, c))
    d.add_state_order(d.input_node, n)
    d.add_state_order(n, dm)
    with d.add_nested(b) as inner:
        (x,) = inner.inputs()
        # non-local edge from the outer region
        y = inner.add(Not(n))
        t = inner.add(ops.MakeTuple()(x, y))
        inner.set_outputs(t)
    d.set_outputs(dm[0], dm[1], inner, n, n)
    return d.hugr


def prog_module_functions():
    mod = Module()
    f_id = mod.define_function("id", [tys.Bool])
    f_id.set_outputs(f_id.input_node[0])
    f_decl = mod.declare_function(
        "ext_fn", tys.PolyFuncType([], tys.FunctionType.endo([tys.Bool]))
    )
    f_main = mod.define_main([tys.Bool])
    b = f_main.input_node[0]
    call1 = f_main.call(f_id, b)
    call2 = f_main.call(f_decl, call1)
    load = f_main.load_function(f_id)
    call3 = f_main.add(ops.CallIndirect()(load, call2))
    f_main.add_state_order(call1, f_main.output_node)
    mod.add_const(val.TRUE)
    f_main.set_outputs(call3)
    rec = mod.define_function("recurse", [tys.Qubit])
    rec.declare_outputs([tys.Qubit])
    rec.set_outputs(rec.call(rec, rec.input_node[0]))
    return mod.hugr


def prog_cfg():
    cfg = Cfg(tys.Bool, tys.Unit, INT_T)
    with cfg.add_entry() as entry:
        b, u, i = entry.inputs()
        entry.set_block_outputs(b, i)
    with cfg.add_successor(entry[0]) as middle_1:
        middle_1.set_block_outputs(u, *middle_1.inputs())
    with cfg.add_successor(entry[1]) as middle_2:
        (j,) = middle_2.inputs()
        dm = middle_2.add(DivMod(j, j))
        middle_2.set_block_outputs(u, dm[0])
    cfg.branch_exit(middle_1[0])
    cfg.branch_exit(middle_2[0])
    return cfg.hugr


def prog_cond_loop_nested():
    either = tys.Either([tys.Qubit], [tys.Qubit, INT_T])
    h = Dfg(tys.Qubit)
    (q,) = h.inputs()
    tagged = h.add(ops.Left(either)(q))
    with h.add_conditional(tagged, h.load(val.TRUE)) as cond:
        with cond.add_case(0) as c0:
            a, b = c0.inputs()
            c0.set_outputs(a, b)
        with cond.add_case(1) as c1:
            a, _i, b = c1.inputs()
            c1.set_outputs(a, b)
    with h.add_tail_loop([], [cond[0]]) as loop:
        (lq,) = loop.inputs()
        cfg = loop.add_cfg(lq)
        with cfg.add_entry() as entry:
            entry.set_single_succ_outputs(*entry.inputs())
        cfg.branch(entry[0], cfg.exit)
        loop.set_loop_outputs(loop.load(val.FALSE), cfg)
    h.set_outputs(loop, cond[1])
    return h.hugr


def prog_history():
    """Deleted nodes, reused indices, an inserted HUGR, several links on one port,
    the same link twice, a childless container and a port count beyond use."""
    d = Dfg(tys.Bool)
    (b,) = d.inputs()
    h = d.hugr
    n1 = d.add_op(Not, b)
    n2 = d.add_op(Not, n1)
    n3 = d.add_op(Not, n2)
    d.set_outputs(n3, n1, n1)
    h.delete_node(n2)
    h.delete_node(n3)
    inner = Dfg(tys.Bool)
    inner.set_outputs(inner.add_op(Not, inner.inputs()[0]))
    inner.hugr[inner.hugr.root].metadata["m"] = {"x": "<i>"}
    mapping = h.insert_hugr(inner.hugr, h.root)
    h.add_link(n1.out(0), mapping[inner.hugr.root].inp(0))
    h.add_link(mapping[inner.hugr.root].out(0), d.output_node.inp(0))
    # the same link twice
    h.add_link(n1.out(0), d.output_node.inp(1))
    # an empty container and a const that is not loaded
    h.add_node(ops.DFG([tys.Bool], [tys.Bool]), h.root, num_outs=3)
    h.add_const(val.Tuple(val.TRUE, IntVal(3)), h.root)
    return h


def prog_root_only():
    return Hugr()


PROGRAMS = {
    "dfg": prog_dfg_order_const_meta,
    "module": prog_module_functions,
    "cfg": prog_cfg,
    "cond-loop": prog_cond_loop_nested,
    "history": prog_history,
    "root-only": prog_root_only,
}


def main():
    import hashlib

    digest = hashlib.sha256()
    for name, prog in PROGRAMS.items():
        h = prog()
        src = check_all_configs(h, name)
        digest.update(src.encode())
        # the same renderer object used again, after its configuration changed
        r = DotRenderer(RenderConfig())
        first = r.render(h).source
        assert first == src
        r.config = RenderConfig(PALETTE["zx"], qualify_op_name=True)
        assert r.render(h).source == h.render_dot(r.config).source
        r.config = RenderConfig()
        assert r.render(h).source == first
        n_links = sum(1 for _ in h.links())
        print(
            f"{name}: {h.num_nodes()} nodes, {n_links} links, "
            f"{len(PALETTE) + 1} palettes x 2 + default ok"
        )
    # the restructuring is not observable: this digest of the DOT sources is the
    # same with and without the change
    print("sha256 of the default renderings:", digest.hexdigest()[:16])
    print("PASS")
    return 0


if __name__ == "__main__":
    sys.exit(main())
