"""Property C03 demo harness (pasted verbatim into every demo.py).

Checks, on documents emitted by the public serialisation entry points:
  * validation against specification/schema/hugr_schema_strict_live.json;
  * index sanity (node 0 root and own parent, parents listed earlier, edge
    endpoints exist);
  * port addressing (value ports by signature position, static port right
    after the value inputs, state-order edge at the first port after those),
    computed from the operations' signatures independently of base.py.
"""

from __future__ import annotations

import json
import pathlib
import sys
from collections import Counter

HERE = pathlib.Path(__file__).resolve().parent
ROOT = next(p for p in HERE.parents if (p / "specification" / "schema").is_dir())
for cand in (HERE / "_deps", HERE.parent / "_deps"):
    if cand.is_dir():
        sys.path.append(str(cand))

import jsonschema  # noqa: E402

import hugr.ops as ops  # noqa: E402
import hugr.tys as tys  # noqa: E402
import hugr.val as val  # noqa: E402
from hugr.build.cfg import Cfg  # noqa: E402
from hugr.build.cond_loop import Conditional  # noqa: E402
from hugr.build.dfg import Dfg  # noqa: E402
from hugr.build.function import Module  # noqa: E402
from hugr.hugr import Hugr  # noqa: E402
from hugr.hugr.node_port import Direction, Node  # noqa: E402
from hugr.package import Package  # noqa: E402
from hugr.std.int import INT_T, DivMod, IntVal  # noqa: E402
from hugr.std.logic import Not  # noqa: E402

SCHEMA = json.loads(
    (ROOT / "specification/schema/hugr_schema_strict_live.json").read_text()
)


def _validator(defn: str) -> jsonschema.Draft202012Validator:
    return jsonschema.Draft202012Validator(
        {"$ref": f"#/$defs/{defn}", "$defs": SCHEMA["$defs"]}
    )


V_HUGR = _validator("SerialHugr")
V_PACKAGE = _validator("Package")
V_EXTENSION = _validator("Extension")

TAG = "c03.demo.id"
#: every document text seen by the checks, in order
DOCS: list[str] = []


def digest() -> str:
    import hashlib

    return hashlib.sha256("\n".join(DOCS).encode()).hexdigest()[:16]


def schema_ok(v: jsonschema.Draft202012Validator, doc: object, what: str) -> None:
    errs = list(v.iter_errors(doc))
    assert not errs, f"{what}: schema violation: {errs[0].message[:300]}"


def index_sane(doc: dict, what: str) -> None:
    nodes = doc["nodes"]
    assert nodes, f"{what}: empty document"
    assert nodes[0]["parent"] == 0, f"{what}: node 0 is not its own parent"
    for i, n in enumerate(nodes[1:], start=1):
        p = n["parent"]
        assert isinstance(p, int)
        assert 0 <= p < i, f"{what}: node {i} has parent {p}, not listed earlier"
    for (sn, so), (dn, do) in doc["edges"]:
        assert 0 <= sn < len(nodes), f"{what}: edge source {sn} does not exist"
        assert 0 <= dn < len(nodes), f"{what}: edge target {dn} does not exist"
        for off in (so, do):
            assert off is None or (isinstance(off, int) and off >= 0)
    if doc.get("metadata") is not None:
        assert len(doc["metadata"]) == len(nodes)


def _n_value_ports(op: ops.Op, direction: Direction) -> int | None:
    """Number of value ports from the signature (None: no dataflow signature)."""
    if isinstance(op, ops.Call):
        sig = op.instantiation
    elif isinstance(op, ops.DataflowOp):
        sig = op.outer_signature()
    else:
        return None
    return len(sig.input) if direction == Direction.INCOMING else len(sig.output)


def _has_static_input(op: ops.Op) -> bool:
    return isinstance(op, ops.Call | ops.LoadConst | ops.LoadFunc)


def expected_offset(h: Hugr, port) -> int:
    """Wire offset of a port, from the signature only."""
    op = h[port.node].op
    nv = _n_value_ports(op, port.direction)
    if port.offset >= 0:
        if nv is not None:
            # links attach only to ports the operation has
            limit = nv + int(
                port.direction == Direction.INCOMING and _has_static_input(op)
            )
            assert port.offset < limit, f"demo bug: link on missing port {port}"
        return port.offset
    assert port.offset == -1
    assert nv is not None, f"demo bug: order edge on non-dataflow op {op}"
    if port.direction == Direction.INCOMING:
        return nv + int(_has_static_input(op))
    return nv


def check_hugr(h: Hugr, what: str) -> dict:
    """All clauses of C03 for one HUGR (through to_json). Returns the document."""
    # tag every node so that document positions can be mapped back to nodes
    # without relying on the order chosen by the implementation
    saved = {}
    for n in list(h):
        saved[n.idx] = h[n].metadata.get(TAG)
        h[n].metadata[TAG] = n.idx
    try:
        text = h.to_json()
        DOCS.append(text)
        doc = json.loads(text)
    finally:
        for n in list(h):
            if saved[n.idx] is None:
                del h[n].metadata[TAG]
            else:
                h[n].metadata[TAG] = saved[n.idx]

    schema_ok(V_HUGR, doc, what)
    index_sane(doc, what)

    # position in the document of every node
    pos = {}
    for i, md in enumerate(doc["metadata"]):
        assert md is not None and TAG in md, f"{what}: node {i} lost its metadata"
        pos[md[TAG]] = i
    assert sorted(pos) == sorted(n.idx for n in h), f"{what}: node set differs"
    assert len(pos) == len(doc["nodes"])

    # hierarchy is the one of the HUGR, siblings in child order
    for n in h:
        data = h[n]
        par = data.parent if data.parent is not None else n
        assert doc["nodes"][pos[n.idx]]["parent"] == pos[par.idx], (
            f"{what}: wrong parent for {n}"
        )
        kids = [pos[c.idx] for c in data.children]
        assert kids == sorted(kids), f"{what}: children of {n} out of order"

    # edges: exactly the links, each end addressed as the signature says
    want = Counter(
        (
            (pos[s.node.idx], expected_offset(h, s)),
            (pos[d.node.idx], expected_offset(h, d)),
        )
        for s, d in h.links()
    )
    got = Counter(((sn, so), (dn, do)) for (sn, so), (dn, do) in doc["edges"])
    assert got == want, (
        f"{what}: edges differ\n only in doc: {got - want}\n missing: {want - got}"
    )

    # static edges: target sits immediately after the value inputs
    for (sn, so), (dn, do) in doc["edges"]:
        src_op = doc["nodes"][sn]["op"]
        if src_op in ("FuncDefn", "FuncDecl", "Const"):
            tgt = next(n for n in h if pos[n.idx] == dn)
            top = h[tgt].op
            assert _has_static_input(top), f"{what}: static edge into {top}"
            assert so == 0
            assert do == _n_value_ports(top, Direction.INCOMING)

    # a specification-conformant reader gets the same graph back
    h2 = Hugr.load_json(json.dumps(doc))
    doc2 = json.loads(h2.to_json())
    schema_ok(V_HUGR, doc2, what + " (re-emitted)")
    index_sane(doc2, what + " (re-emitted)")
    assert len(doc2["nodes"]) == len(doc["nodes"])
    assert Counter(map(_edge_key, doc2["edges"])) == Counter(
        map(_edge_key, doc["edges"])
    ) or _same_up_to_order(doc, doc2), f"{what}: reload changed the edges"
    return doc


def _edge_key(e):
    (a, b), (c, d) = e
    return (a, b, c, d)


def _same_up_to_order(doc, doc2) -> bool:
    """Same labelled graph when the node order of the two documents differs:
    compare through the demo tag."""
    t1 = [m[TAG] for m in doc["metadata"]]
    t2 = [m[TAG] for m in doc2["metadata"]]
    e1 = Counter((t1[a], b, t1[c], d) for (a, b), (c, d) in doc["edges"])
    e2 = Counter((t2[a], b, t2[c], d) for (a, b), (c, d) in doc2["edges"])
    return e1 == e2


# --------------------------------------------------------------------------
# inputs / histories
# --------------------------------------------------------------------------


def build_order_partial() -> Hugr:
    """State-order edges on nodes most of whose ports are NOT connected."""
    d = Dfg(tys.Bool, INT_T, INT_T)
    b, i, j = d.inputs()
    dm = d.add(DivMod(i, j))  # 2 in, 2 out
    nt = d.add_op(Not, b)
    # only output 1 of DivMod is used; Not's output is unused
    d.add_state_order(dm, nt)
    d.add_state_order(d.input_node, dm)
    d.add_state_order(nt, d.output_node)
    d.add_state_order(dm, d.output_node)
    d.set_outputs(dm[1])
    return d.hugr


def build_dangling_order() -> Hugr:
    """Order edges between nodes that have NO value port connected at all."""
    h = Hugr(ops.DFG([tys.Bool, tys.Bool], [tys.Bool]))
    inp = h.add_node(ops.Input([tys.Bool, tys.Bool]), num_outs=2)
    out = h.add_node(ops.Output([tys.Bool]))
    a = h.add_node(Not, num_outs=1)
    b = h.add_node(Not, num_outs=1)
    h.add_order_link(inp, a)
    h.add_order_link(a, b)
    h.add_order_link(b, out)
    h.add_order_link(inp, out)
    return h


def build_module() -> Hugr:
    """Call / LoadFunc / LoadConst: static port right after the value inputs."""
    mod = Module()
    f_id = mod.define_function("id", [tys.Bool, INT_T])
    f_id.set_outputs(*f_id.inputs())
    f_main = mod.define_main([tys.Bool, INT_T])
    b, i = f_main.inputs()
    c1 = f_main.call(f_id, b, i)
    c2 = f_main.call(f_id, c1[0], c1[1])
    lf = f_main.load_function(f_id)
    k = f_main.load(IntVal(7, 5))
    dm = f_main.add(DivMod(c2[1], k))
    f_main.add_state_order(c1, c2)  # order port of a Call: after the static port
    f_main.add_state_order(c2, lf)  # order port of a LoadFunc: 0 inputs + static
    f_main.add_state_order(f_main.input_node, k.out_port().node)
    f_main.add_state_order(lf.out_port().node, f_main.output_node)
    f_main.set_outputs(c2[0], dm[0])
    return mod.hugr


def build_call_unconnected() -> Hugr:
    """A Call whose value inputs are not connected, only static + order."""
    mod = Module()
    f_id = mod.define_function("id", [tys.Bool, tys.Bool])
    f_id.set_outputs(*f_id.inputs())
    f_main = mod.define_main([tys.Bool])
    h = mod.hugr
    sig = tys.FunctionType([tys.Bool, tys.Bool], [tys.Bool, tys.Bool])
    call = h.add_node(
        ops.Call(sig.as_poly() if hasattr(sig, "as_poly") else tys.PolyFuncType([], sig), sig),
        f_main.parent_node,
        num_outs=2,
    )
    h.add_link(f_id.parent_node.out(0), call.inp(2))  # static port = #value inputs
    h.add_order_link(f_main.input_node, call)
    h.add_order_link(call, f_main.output_node)
    f_main.set_outputs(f_main.input_node[0])
    return h


def build_cfg() -> Hugr:
    cfg = Cfg(tys.Bool, INT_T)
    entry = cfg.add_entry()
    entry.set_block_outputs(*entry.inputs())
    m1 = cfg.add_successor(entry[0])
    m1.set_single_succ_outputs(*m1.inputs())
    m2 = cfg.add_successor(entry[1])
    (i,) = m2.inputs()
    n = m2.add(DivMod(i, i))
    m2.set_single_succ_outputs(n[0])
    cfg.branch_exit(m1[0])
    cfg.branch_exit(m2[0])
    return cfg.hugr


def build_cond_nested() -> Hugr:
    either = tys.Either([tys.Qubit], [tys.Qubit, INT_T])
    h = Dfg(tys.Qubit)
    (q,) = h.inputs()
    tagged = h.add(ops.Left(either)(q))
    with h.add_conditional(tagged, h.load(val.TRUE)) as cond:
        with cond.add_case(0) as c0:
            q0, b0 = c0.inputs()
            c0.set_outputs(q0, b0)
        with cond.add_case(1) as c1:
            q1, _i, b1 = c1.inputs()
            c1.set_outputs(q1, b1)
    h.set_outputs(*cond[:2])
    return h.hugr


class _Steps:
    """Calls `check_hugr` on the HUGR as it is after each step of a history."""

    def __init__(self, check: bool) -> None:
        self.check = check
        self.count = 0

    def append(self, item: tuple[str, Hugr]) -> None:
        if self.check:
            check_hugr(item[1], item[0])
            self.count += 1


def history_delete_reuse(check: bool = False) -> tuple[Hugr, int]:
    """Node deletion and index reuse; the property is checked after each step.
    Returns the final HUGR and the number of documents checked."""
    out = _Steps(check)
    d = Dfg(tys.Bool)
    (b,) = d.inputs()
    n1 = d.add_op(Not, b)
    with d.add_nested(n1) as inner:
        (x,) = inner.inputs()
        y = inner.add_op(Not, x)
        inner.set_outputs(y)
    n2 = d.add_op(Not, inner)
    d.set_outputs(n2)
    h = d.hugr
    out.append(("reuse/0 built", h))

    # delete two top-level nodes: indices become non contiguous
    h.delete_node(n1.out_port().node)
    h.delete_node(n2.out_port().node)
    out.append(("reuse/1 two deleted", h))

    # reuse the freed (low) indices for nodes INSIDE the nested DFG, i.e. children
    # with an index smaller than their parent's, appended after existing children
    inner_parent = inner.parent_node
    extra1 = h.add_node(Not, inner_parent, num_outs=1)
    out.append(("reuse/2 one index reused", h))
    extra2 = h.add_node(Not, inner_parent, num_outs=1)
    h.add_link(extra1.out(0), extra2.inp(0))
    h.add_order_link(inner.input_node, extra1)
    h.add_order_link(extra2, inner.output_node)
    out.append(("reuse/3 both reused, linked", h))

    # reconnect the outer graph and grow it again (fresh indices)
    h.add_link(d.input_node.out(0), inner_parent.inp(0))
    n3 = h.add_node(Not, d.parent_node, num_outs=1)
    h.add_link(inner_parent.out(0), n3.inp(0))
    h.add_link(n3.out(0), d.output_node.inp(0))
    out.append(("reuse/4 regrown", h))

    # delete a whole subtree bottom-up, then build a new container in the holes
    for n in [extra2, extra1]:
        h.delete_node(n)
    out.append(("reuse/5 extras deleted", h))
    for n in list(h.children(inner_parent)):
        h.delete_node(n)
    h.delete_node(inner_parent)
    h.delete_node(n3)
    out.append(("reuse/6 subtree deleted", h))
    new_dfg = h.add_node(ops.DFG([tys.Bool], [tys.Bool]), d.parent_node, num_outs=1)
    ni = h.add_node(ops.Input([tys.Bool]), new_dfg, num_outs=1)
    no = h.add_node(ops.Output([tys.Bool]), new_dfg)
    nn = h.add_node(Not, new_dfg, num_outs=1)
    h.add_link(ni.out(0), nn.inp(0))
    h.add_link(nn.out(0), no.inp(0))
    h.add_link(d.input_node.out(0), new_dfg.inp(0))
    h.add_link(new_dfg.out(0), d.output_node.inp(0))
    h.add_order_link(ni, no)
    out.append(("reuse/7 rebuilt in holes", h))
    return h, out.count


def build_inserted() -> Hugr:
    """insert_hugr of a HUGR that itself went through deletion and reuse."""
    src = history_delete_reuse()[0]
    host = Dfg(tys.Bool)
    (b,) = host.inputs()
    mapping = host.hugr.insert_hugr(src, host.parent_node)
    new_root = mapping[src.root]
    host.hugr.add_link(b, new_root.inp(0))
    host.set_outputs(new_root.out(0))
    return host.hugr


def random_history(seed: int, steps: int = 40, every: int = 4) -> int:
    """Random interleaving of node additions (under random containers), leaf
    deletions (freed indices get reused), value links, order links and link
    deletions.  Links only ever attach to ports the operations have.  The
    property is checked every few steps.  Returns the number of documents."""
    import random

    rnd = random.Random(seed)
    h = Hugr(ops.DFG([tys.Bool], [tys.Bool]))
    containers = [h.root]
    leaves: list[Node] = []  # Not nodes: 1 value in, 1 value out

    def new_container(parent: Node) -> None:
        c = h.add_node(ops.DFG([tys.Bool], [tys.Bool]), parent, num_outs=1)
        h.add_node(ops.Input([tys.Bool]), c, num_outs=1)
        h.add_node(ops.Output([tys.Bool]), c)
        containers.append(c)

    h.add_node(ops.Input([tys.Bool]), h.root, num_outs=1)
    h.add_node(ops.Output([tys.Bool]), h.root)
    checked = 0
    for step in range(steps):
        r = rnd.random()
        if r < 0.30 or len(leaves) < 2:
            leaves.append(h.add_node(Not, rnd.choice(containers), num_outs=1))
        elif r < 0.40:
            new_container(rnd.choice(containers))
        elif r < 0.60:
            victim = leaves.pop(rnd.randrange(len(leaves)))
            h.delete_node(victim)
        elif r < 0.75:
            a, b = rnd.sample(leaves, 2)
            h.add_link(a.out(0), b.inp(0))
        elif r < 0.90:
            a, b = rnd.sample(leaves, 2)
            h.add_order_link(a, b)
        else:
            links = list(h.links())
            if links:
                h.delete_link(*rnd.choice(links))
        if step % every == every - 1 or step == steps - 1:
            check_hugr(h, f"random history seed={seed} step={step}")
            checked += 1
    return checked


def all_hugrs() -> list[tuple[str, Hugr]]:
    res = [
        ("order/partial", build_order_partial()),
        ("order/dangling", build_dangling_order()),
        ("module/static", build_module()),
        ("module/call-unconnected", build_call_unconnected()),
        ("cfg", build_cfg()),
        ("cond", build_cond_nested()),
        ("inserted", build_inserted()),
    ]
    return res


def check_everything() -> int:
    """Runs every check; returns the number of documents checked."""
    n = 0
    for what, h in all_hugrs():
        check_hugr(h, what)
        n += 1
    # histories: check after every step (the same object is mutated, so redo it)
    n += history_delete_reuse(check=True)[1]
    for seed in range(12):
        n += random_history(seed)

    # packages and extensions
    from hugr.std.float import FLOAT_TYPES_EXTENSION
    from hugr.std.int import INT_OPS_EXTENSION, INT_TYPES_EXTENSION
    from hugr.std.logic import EXTENSION as LOGIC_EXTENSION

    exts = [INT_TYPES_EXTENSION, INT_OPS_EXTENSION, LOGIC_EXTENSION, FLOAT_TYPES_EXTENSION]
    for e in exts:
        DOCS.append(e._to_serial().model_dump_json())
        doc = json.loads(DOCS[-1])
        schema_ok(V_EXTENSION, doc, f"extension {e.name}")
        doc = json.loads(e.to_json())
        schema_ok(V_EXTENSION, doc, f"extension {e.name} (to_json)")
        n += 1
    mods = [build_module(), build_call_unconnected()]
    others = [history_delete_reuse()[0], build_cfg()]
    for pk in (Package(mods, exts), Package(mods + others, []), Package([], exts[:1])):
        DOCS.append(pk._to_serial().model_dump_json())
        doc = json.loads(DOCS[-1])
        schema_ok(V_PACKAGE, doc, "package")
        for k, m in enumerate(doc["modules"]):
            index_sane(m, f"package module {k}")
        # the same through the public envelope writer (10 byte header + JSON)
        env = pk.to_str()
        DOCS.append(env)
        doc = json.loads(env[10:])
        schema_ok(V_PACKAGE, doc, "package (text envelope)")
        for k, m in enumerate(doc["modules"]):
            index_sane(m, f"envelope module {k}")
        n += 1
    return n



# ---------------------------------------------------------------------------
# change 1 (internal restructuring of _serial_order / _to_serial)
# ---------------------------------------------------------------------------

#: digest printed by this program on the clean tree (hugr-py as checked out)
CLEAN_DIGEST = "e1f2bddc3a8a0eb3"


def main() -> int:
    n = check_everything()
    print("documents checked:", n)
    d = digest()
    print("digest of all emitted documents:", d)
    if d == CLEAN_DIGEST:
        print("identical, byte for byte, to the documents of the clean tree")
    else:
        # not a failure of the property; only reported
        print("differs from the reference digest", CLEAN_DIGEST)
    # the helper the serializer is built from, on an inconsistent-index HUGR
    h, _ = history_delete_reuse()
    order = h._serial_order() if hasattr(h, "_serial_order") else None
    if order is not None:
        print("serialization order of the rebuilt HUGR:", [n.idx for n in order])
    print("PASS")
    return 0


if __name__ == "__main__":
    sys.exit(main())
