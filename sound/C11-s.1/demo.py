"""Demo for property C11 (extension resolution is conservative, idempotent and
invisible on the wire).

Run:  PYTHONPATH=/tmp/sf-C11/hugr-py/src /venv/bin/python demo.py
Prints PASS and exits 0 when every clause of the property holds on the inputs
below; raises (exit != 0) otherwise.
"""

from __future__ import annotations

import json

from hugr import ext, tys
from hugr.build.function import Module
from hugr.hugr import Hugr
from hugr.hugr.node_port import InPort, OutPort
from hugr.ops import Custom, ExtOp

# --------------------------------------------------------------------------
# extensions
# --------------------------------------------------------------------------


def make_extensions() -> tuple[ext.Extension, ext.Extension, ext.Extension]:
    a = ext.Extension("demo.a", ext.Version(0, 1, 0))
    a.add_type_def(
        ext.TypeDef(
            "Box",
            description="a box",
            params=[tys.TypeTypeParam(tys.TypeBound.Any)],
            bound=ext.FromParamsBound([0]),
        )
    )
    a.add_type_def(
        ext.TypeDef(
            "Tok",
            description="a token",
            params=[],
            bound=ext.ExplicitBound(tys.TypeBound.Copyable),
        )
    )
    a.add_type_def(
        ext.TypeDef(
            "Lin",
            description="a linear thing",
            params=[],
            bound=ext.ExplicitBound(tys.TypeBound.Any),
        )
    )
    a.add_op_def(
        ext.OpDef(
            "wrap",
            description="definition text of wrap",
            signature=ext.OpDefSig(
                tys.PolyFuncType(
                    [tys.TypeTypeParam(tys.TypeBound.Any)],
                    tys.FunctionType([tys.Variable(0, tys.TypeBound.Any)], []),
                )
            ),
        )
    )
    a.add_op_def(
        ext.OpDef(
            "mix",
            description="definition text of mix",
            signature=ext.OpDefSig(tys.FunctionType.empty()),
        )
    )

    b = ext.Extension("demo.b", ext.Version(0, 1, 0))
    b.add_type_def(
        ext.TypeDef(
            "Other",
            description="other",
            params=[tys.ListParam(tys.TypeTypeParam(tys.TypeBound.Any))],
            bound=ext.ExplicitBound(tys.TypeBound.Copyable),
        )
    )
    b.add_op_def(
        ext.OpDef(
            "oop",
            description="definition text of oop",
            signature=ext.OpDefSig(tys.FunctionType.empty()),
        )
    )

    # same name as `a`, but holding only a part of the definitions
    a_partial = ext.Extension("demo.a", ext.Version(0, 1, 0))
    a_partial.add_type_def(
        ext.TypeDef(
            "Box",
            description="a box",
            params=[tys.TypeTypeParam(tys.TypeBound.Any)],
            bound=ext.FromParamsBound([0]),
        )
    )
    a_partial.add_op_def(
        ext.OpDef(
            "wrap",
            description="definition text of wrap (partial ext)",
            signature=ext.OpDefSig(
                tys.PolyFuncType(
                    [tys.TypeTypeParam(tys.TypeBound.Any)],
                    tys.FunctionType([tys.Variable(0, tys.TypeBound.Any)], []),
                )
            ),
        )
    )
    return a, b, a_partial


def registries() -> dict[str, ext.ExtensionRegistry]:
    a, b, a_partial = make_extensions()
    regs: dict[str, ext.ExtensionRegistry] = {}
    regs["empty"] = ext.ExtensionRegistry()
    r = ext.ExtensionRegistry()
    r.add_extension(a)
    regs["only-a"] = r
    r = ext.ExtensionRegistry()
    r.add_extension(b)
    regs["only-b"] = r
    r = ext.ExtensionRegistry()
    r.add_extension(a_partial)
    r.add_extension(b)
    regs["partial-a+b"] = r
    r = ext.ExtensionRegistry()
    r.add_extension(b)
    r.add_extension(a)
    regs["complete"] = r
    return regs


# --------------------------------------------------------------------------
# opaque type expressions
# --------------------------------------------------------------------------

C = tys.TypeBound.Copyable
A = tys.TypeBound.Any


def tok() -> tys.Opaque:
    return tys.Opaque("Tok", C, [], "demo.a")


def lin() -> tys.Opaque:
    return tys.Opaque("Lin", A, [], "demo.a")


def box(t: tys.Type) -> tys.Opaque:
    return tys.Opaque("Box", t.type_bound(), [t.type_arg()], "demo.a")


def other(*ts: tys.Type) -> tys.Opaque:
    return tys.Opaque(
        "Other", C, [tys.SequenceArg([t.type_arg() for t in ts])], "demo.b"
    )


def unknown(*ts: tys.Type) -> tys.Opaque:
    # extension not in any registry
    return tys.Opaque("Mystery", A, [t.type_arg() for t in ts], "demo.nowhere")


def undefined_in_a(*ts: tys.Type) -> tys.Opaque:
    # extension name is known to some registries, the type name to none
    return tys.Opaque("NoSuchType", A, [t.type_arg() for t in ts], "demo.a")


def type_expressions() -> list[tys.Type]:
    return [
        tys.Bool,
        tys.Qubit,
        tok(),
        box(tok()),
        box(box(lin())),
        tys.Sum([[box(tok()), tys.Bool], [lin()], []]),
        tys.Tuple(tok(), other(tok(), box(lin()))),
        tys.FunctionType([box(tok())], [tys.Sum([[other()], [tok(), tys.Qubit]])]),
        unknown(box(tok()), tys.FunctionType([lin()], [other(unknown())])),
        undefined_in_a(tok(), tys.Tuple(box(other(lin())))),
        other(
            tys.Sum([[unknown(tok())], [box(undefined_in_a(lin()))]]),
            tys.FunctionType([tys.FunctionType([tok()], [box(tok())])], []),
        ),
        tys.Option(box(tys.Either([tok()], [lin(), tys.Bool]))),
    ]


# --------------------------------------------------------------------------
# structural checks on type expressions
# --------------------------------------------------------------------------


def lookup_type(reg: ext.ExtensionRegistry, extension: str, name: str):
    e = reg.extensions.get(extension)
    if e is None:
        return None
    return e.types.get(name)


def lookup_op(reg: ext.ExtensionRegistry, extension: str, name: str):
    e = reg.extensions.get(extension)
    if e is None:
        return None
    return e.operations.get(name)


def check_type(before, after, reg, path="") -> None:
    """`after` is `before` with exactly the registry-known opaque types replaced
    by their definition-backed form, at every depth.
    """
    if isinstance(before, tys.Opaque):
        td = lookup_type(reg, before.extension, before.id)
        if td is None:
            assert isinstance(after, tys.Opaque), (path, before, after)
            assert after.id == before.id, path
            assert after.extension == before.extension, path
            assert after.bound == before.bound, path
        else:
            assert isinstance(after, tys.ExtType), (path, before, after)
            assert not isinstance(after, tys.Opaque)
            assert after.type_def is td, (path, before, after)
        assert len(after.args) == len(before.args), path
        for i, (x, y) in enumerate(zip(before.args, after.args, strict=True)):
            check_arg(x, y, reg, f"{path}.args[{i}]")
    elif isinstance(before, tys.ExtType):
        assert isinstance(after, tys.ExtType), path
        assert after.type_def is before.type_def, path
        for i, (x, y) in enumerate(zip(before.args, after.args, strict=True)):
            check_arg(x, y, reg, f"{path}.args[{i}]")
    elif isinstance(before, tys.Sum):
        assert isinstance(after, tys.Sum), (path, before, after)
        assert len(after.variant_rows) == len(before.variant_rows), path
        for r, (rb, ra) in enumerate(
            zip(before.variant_rows, after.variant_rows, strict=True)
        ):
            assert len(rb) == len(ra), path
            for i, (x, y) in enumerate(zip(rb, ra, strict=True)):
                check_type(x, y, reg, f"{path}.rows[{r}][{i}]")
    elif isinstance(before, tys.FunctionType):
        assert isinstance(after, tys.FunctionType), (path, before, after)
        assert list(after.runtime_reqs) == list(before.runtime_reqs), path
        assert len(before.input) == len(after.input), path
        assert len(before.output) == len(after.output), path
        for i, (x, y) in enumerate(zip(before.input, after.input, strict=True)):
            check_type(x, y, reg, f"{path}.in[{i}]")
        for i, (x, y) in enumerate(zip(before.output, after.output, strict=True)):
            check_type(x, y, reg, f"{path}.out[{i}]")
    else:
        assert type(after) is type(before), (path, before, after)
        assert after == before, (path, before, after)
    # invisible on the wire / in the model; bounds preserved
    assert dump(after._to_serial_root()) == dump(before._to_serial_root()), path
    assert after.to_model() == before.to_model(), path
    assert after.type_bound() == before.type_bound(), path


def check_arg(before, after, reg, path) -> None:
    if isinstance(before, tys.TypeTypeArg):
        assert isinstance(after, tys.TypeTypeArg), path
        check_type(before.ty, after.ty, reg, path + ".ty")
    elif isinstance(before, tys.SequenceArg):
        assert isinstance(after, tys.SequenceArg), path
        assert len(before.elems) == len(after.elems), path
        for i, (x, y) in enumerate(zip(before.elems, after.elems, strict=True)):
            check_arg(x, y, reg, f"{path}.elems[{i}]")
    else:
        assert type(after) is type(before), path
        assert after == before, path
    assert dump(after._to_serial_root()) == dump(before._to_serial_root()), path
    assert after.to_model() == before.to_model(), path


def dump(serial) -> str:
    return json.dumps(serial.model_dump(mode="json"), sort_keys=True)


# --------------------------------------------------------------------------
# HUGRs
# --------------------------------------------------------------------------


def build_hugrs() -> list[str]:
    """Serialized HUGRs with opaque operations."""
    out: list[str] = []

    # 1: a chain of custom ops over nested opaque types
    t_in = [
        box(tok()),
        tys.Sum([[box(box(lin())), tys.Bool], [other(tok())]]),
        unknown(box(tok())),
        tys.FunctionType([undefined_in_a(tok())], [other(box(lin()), tok())]),
    ]
    m = Module()
    d = m.define_main(t_in)
    w = d.inputs()
    n_wrap = d.add_op(
        Custom(
            "wrap",
            tys.FunctionType([t_in[0]], [], runtime_reqs=["demo.a"]),
            "text stored in the document for wrap",
            "demo.a",
            [t_in[0].type_arg()],
        ),
        w[0],
    )
    mix_sig = tys.FunctionType(t_in[1:], list(reversed(t_in[1:])), ["demo.a"])
    n_mix = d.add_op(
        Custom(
            "mix",
            mix_sig,
            "",
            "demo.a",
            [
                tys.SequenceArg([t.type_arg() for t in t_in[1:]]),
                tys.BoundedNatArg(3),
                tys.StringArg("s"),
            ],
        ),
        *w[1:],
    )
    n_oop = d.add_op(
        Custom(
            "oop",
            tys.FunctionType.endo([t_in[3]], ["demo.b"]),
            "document text for oop",
            "demo.b",
            [],
        ),
        n_mix[0],
    )
    # operation name unknown to every registry, extension name known to some
    n_undef = d.add_op(
        Custom(
            "no_such_op",
            tys.FunctionType.endo([t_in[2]], ["demo.a"]),
            "document text of an op nobody defines",
            "demo.a",
            [box(tok()).type_arg()],
        ),
        n_mix[1],
    )
    # extension unknown to every registry
    n_unk = d.add_op(
        Custom(
            "thing",
            tys.FunctionType.endo([t_in[1]]),
            "document text, unknown extension",
            "demo.nowhere",
            [other(box(tok())).type_arg()],
        ),
        n_mix[2],
    )
    del n_wrap
    d.set_outputs(n_oop[0], n_undef[0], n_unk[0])
    out.append(m.hugr.to_json())

    # 2: nested dataflow with a custom op inside
    m = Module()
    d = m.define_main([box(lin())])
    with d.add_nested(d.inputs()[0]) as inner:
        k = inner.add_op(
            Custom(
                "mix",
                tys.FunctionType([box(lin())], [tys.Tuple(other(), box(lin()))]),
                "inner",
                "demo.a",
                [],
            ),
            inner.inputs()[0],
        )
        inner.set_outputs(k[0])
    d.set_outputs(inner)
    out.append(m.hugr.to_json())

    # 3: no custom ops at all
    m = Module()
    d = m.define_main([tys.Bool, box(tok())])
    d.set_outputs(*d.inputs())
    out.append(m.hugr.to_json())
    return out


def ports(h: Hugr):
    for n in h:
        for i in range(h.num_in_ports(n)):
            yield InPort(n, i)
        for i in range(h.num_out_ports(n)):
            yield OutPort(n, i)


def port_facts(h: Hugr):
    facts = []
    for p in ports(h):
        t = h.port_type(p)
        facts.append(
            (
                p.node.idx,
                p.direction.name,
                p.offset,
                None if t is None else dump(t._to_serial_root()),
                None if t is None else t.type_bound(),
            )
        )
    return facts


def masked_doc(js: str) -> tuple[dict, list[tuple[int, str]]]:
    """The document with operation descriptions taken out (returned apart)."""
    doc = json.loads(js)
    descs = []
    for i, n in enumerate(doc["nodes"]):
        if n.get("op") == "Extension":
            descs.append((i, n.pop("description", "")))
    return doc, descs


def check_hugr(js: str, reg_name: str, reg: ext.ExtensionRegistry, report: list):
    h = Hugr.load_json(js)
    ref = Hugr.load_json(js)  # untouched twin
    ops_before = {n.idx: h[n].op for n in h}
    doc0, descs0 = masked_doc(h.to_json())
    model0 = h.to_model()
    ports0 = port_facts(h)
    n_nodes, n_links = h.num_nodes(), list(h.links())

    ret = h.resolve_extensions(reg)
    assert ret is h

    assert h.num_nodes() == n_nodes
    assert list(h.links()) == n_links
    for n in h:
        ob, oa = ops_before[n.idx], h[n].op
        if not isinstance(ob, Custom):
            assert oa is ob, "non-opaque operations are untouched"
            continue
        od = lookup_op(reg, ob.extension, ob.op_name)
        if od is None:
            # conservative: left untouched
            assert isinstance(oa, Custom)
            rb = ref[n].op
            assert (oa.op_name, oa.extension, oa.description) == (
                rb.op_name,
                rb.extension,
                rb.description,
            )
            assert oa.signature == rb.signature and oa.args == rb.args
            assert repr(oa) == repr(rb)
        else:
            assert isinstance(oa, ExtOp), (reg_name, ob)
            assert oa.op_def() is od
            assert oa.signature is not None
            check_type(ob.signature, oa.signature, reg, f"node{n.idx}.sig")
            assert len(oa.args) == len(ob.args)
            for i, (x, y) in enumerate(zip(ob.args, oa.args, strict=True)):
                check_arg(x, y, reg, f"node{n.idx}.args[{i}]")
        # signatures as seen through the op interface
        assert dump(oa.outer_signature()._to_serial()) == dump(
            ob.outer_signature()._to_serial()
        )
        assert oa.num_out == ob.num_out

    doc1, descs1 = masked_doc(h.to_json())
    assert doc1 == doc0, "serialized document changed"
    for (i, d0), (j, d1) in zip(descs0, descs1, strict=True):
        assert i == j
        ob = ops_before[i] if i in ops_before else None
        # node order in the document == node index here (no removed nodes)
        od = lookup_op(reg, ob.extension, ob.op_name) if ob is not None else None
        if od is None:
            assert d1 == d0, "description of an unresolved op changed"
        elif d1 != d0:
            report.append((reg_name, ob.op_name, d0, d1, od.description))
    assert h.to_model() == model0, "exported model changed"
    assert port_facts(h) == ports0, "port types / bounds changed"

    # idempotent
    ops_once = {n.idx: h[n].op for n in h}
    json_once, model_once = h.to_json(), h.to_model()
    h.resolve_extensions(reg)
    for n in h:
        a, b = ops_once[n.idx], h[n].op
        assert type(a) is type(b)
        if isinstance(a, ExtOp):
            assert a.op_def() is b.op_def()
            assert a.signature == b.signature and a.args == b.args
            assert repr(a) == repr(b)
    assert h.to_json() == json_once
    assert h.to_model() == model_once
    return h


def check_types(reg_name: str, reg: ext.ExtensionRegistry) -> None:
    for t in type_expressions():
        r = t.resolve(reg)
        check_type(t, r, reg, f"<{reg_name}> {t!r}")
        rr = r.resolve(reg)
        check_type(r, rr, reg, f"<{reg_name}> twice {t!r}")
        assert rr == r and repr(rr) == repr(r), "resolving twice != once"
        assert dump(rr._to_serial_root()) == dump(t._to_serial_root())
    for t in type_expressions():
        a = t.type_arg()
        check_arg(a, a.resolve(reg), reg, f"<{reg_name}> arg {t!r}")
        s = tys.SequenceArg([a, tys.BoundedNatArg(1), tys.StringArg("x")])
        check_arg(s, s.resolve(reg), reg, f"<{reg_name}> seq {t!r}")
        p = tys.PolyFuncType([tys.TypeTypeParam(A)], tys.FunctionType([t], [t]))
        pr = p.resolve(reg)
        assert pr.params == p.params
        check_type(p.body, pr.body, reg, f"<{reg_name}> poly {t!r}")


def extra() -> None:
    """Change-specific part: resolving a whole HUGR == resolving op by op, in
    whatever order, also with many nodes carrying the same operation, with a
    hole in the node table, and with a registry that changes between two calls
    (nothing may be remembered from the first call).
    """
    a, b, _ = make_extensions()
    m = Module()
    t = box(other(tok(), lin()))
    d = m.define_main([t])
    w = d.inputs()[0]
    doomed = None
    for i in range(40):
        name, extension = [("mix", "demo.a"), ("oop", "demo.b"), ("nope", "demo.a")][
            i % 3
        ]
        n = d.add_op(
            Custom(name, tys.FunctionType.endo([t]), f"d{i}", extension, []), w
        )
        if i == 7:
            doomed = n
            continue
        w = n[0]
    d.set_outputs(w)
    js = m.hugr.to_json()

    reg = ext.ExtensionRegistry()
    reg.add_extension(a)
    whole, single = Hugr.load_json(js), Hugr.load_json(js)
    whole.delete_node(doomed)
    single.delete_node(doomed)
    assert any(x is None for x in whole._nodes)
    for round_ in range(2):
        whole.resolve_extensions(reg)
        for n in single:
            op = single[n].op
            if isinstance(op, Custom):
                single[n].op = op.resolve(reg)
        kinds = []
        for n in whole:
            x, y = whole[n].op, single[n].op
            assert type(x) is type(y), (n, x, y)
            if isinstance(x, ExtOp):
                assert x.op_def() is y.op_def()
                assert x.signature == y.signature and x.args == y.args
                assert repr(x) == repr(y)
            elif isinstance(x, Custom):
                assert repr(x) == repr(y)
            kinds.append(type(x).__name__)
        assert whole.to_json() == single.to_json()
        print(
            f"  round {round_}: {kinds.count('ExtOp')} resolved,"
            f" {kinds.count('Custom')} still opaque"
        )
        # the registry learns a new extension; the next call must see it
        if round_ == 0:
            reg.add_extension(b)
    assert kinds.count("Custom") == 13


def main() -> None:
    report: list = []
    docs = build_hugrs()
    for name, reg in registries().items():
        check_types(name, reg)
        for js in docs:
            check_hugr(js, name, reg, report)
    # a registry that grows between two resolutions (history)
    a, b, _ = make_extensions()
    reg = ext.ExtensionRegistry()
    h = check_hugr(docs[0], "grow-0", reg, report)
    reg.add_extension(b)
    h = check_hugr(h.to_json(), "grow-1", reg, report)
    reg.add_extension(a)
    h = check_hugr(h.to_json(), "grow-2", reg, report)
    assert sum(isinstance(h[n].op, ExtOp) for n in h) == 3
    assert sum(isinstance(h[n].op, Custom) for n in h) == 2

    print("descriptions of resolved operations in the serialized document")
    print("  (registry, op, before, after, definition's):")
    for row in sorted(set(report)):
        print("   ", row)
    extra()
    print("PASS")


if __name__ == "__main__":
    main()
