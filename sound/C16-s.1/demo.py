"""C16 demo: node handles enumerate exactly their operation's value outputs.

Run with: PYTHONPATH=/tmp/sf-C16/hugr-py/src /venv/bin/python demo.py
Prints PASS and exits 0 when every clause of the property holds.
"""

from __future__ import annotations

import itertools
import sys

from hugr import ops, tys, val
from hugr.build.cfg import Cfg
from hugr.build.cond_loop import Conditional, TailLoop
from hugr.build.dfg import Dfg
from hugr.build.function import Module
from hugr.hugr import Hugr, Node, OutPort
from hugr.hugr.node_port import InPort

FAILURES: list[str] = []


def check(cond: bool, what: str) -> None:
    if not cond:
        FAILURES.append(what)


def raises(exc: type[BaseException], f) -> bool:
    try:
        f()
    except exc:
        return True
    except BaseException:  # noqa: BLE001
        return False
    return False


def check_counted(h, n: int, label: str) -> None:
    """`h` is a handle (node or builder) that must know it has `n` outputs."""
    node = h.to_node()
    ports = [OutPort(node, i) for i in range(n)]

    # iteration, in order
    got = list(h)
    check(got == ports, f"{label}: iteration gives {got}, want {ports}")
    check(
        all(type(p) is OutPort and p.node.idx == node.idx for p in got),
        f"{label}: iteration yields something that is not an output port of the node",
    )
    check(list(h.outputs()) == ports, f"{label}: outputs()")

    # integer indexing
    for i in range(-n - 4, n + 5):
        if -n <= i < n:
            try:
                p = h[i]
            except Exception as e:  # noqa: BLE001
                check(False, f"{label}: h[{i}] raised {e!r}")
                continue
            check(p == ports[i], f"{label}: h[{i}] is {p}, want {ports[i]}")
            check(p.offset == range(n)[i], f"{label}: h[{i}] offset")
        else:
            check(raises(IndexError, lambda i=i: h[i]), f"{label}: h[{i}] no IndexError")
    for i in (10**6, -(10**6)):
        check(raises(IndexError, lambda i=i: h[i]), f"{label}: h[{i}] no IndexError")

    # slices with positive step
    bounds = [None, *range(-n - 3, n + 4), 999, -999, 10**9]
    steps = [None, 1, 2, 3, 7, 10**6]
    for start, stop, step in itertools.product(bounds, bounds, steps):
        sl = slice(start, stop, step)
        too_low = any(b is not None and b < -n for b in (start, stop))
        if too_low:
            check(
                raises(IndexError, lambda sl=sl: list(h[sl])),
                f"{label}: h[{sl}] no IndexError",
            )
        else:
            try:
                got = list(h[sl])
            except Exception as e:  # noqa: BLE001
                check(False, f"{label}: h[{sl}] raised {e!r}")
                continue
            want = [OutPort(node, i) for i in range(n)[sl]]
            check(got == want, f"{label}: h[{sl}] is {got}, want {want}")

    # used as a wire: output 0
    check(h.out_port() == OutPort(node, 0), f"{label}: out_port()")
    check(h.out_port().offset == 0, f"{label}: out_port() offset")


def check_uncounted(h, label: str) -> None:
    node = h.to_node()
    for i in (0, 1, 2, 17, 10**6):
        try:
            check(h[i] == OutPort(node, i), f"{label}: h[{i}]")
        except Exception as e:  # noqa: BLE001
            check(False, f"{label}: h[{i}] raised {e!r}")
    check(raises(ValueError, lambda: list(h)), f"{label}: list(h) no ValueError")
    check(raises(ValueError, lambda: iter(h)) or raises(ValueError, lambda: next(iter(h))),
          f"{label}: iter(h) no ValueError")
    check(raises(ValueError, lambda: list(h.outputs())), f"{label}: outputs()")
    check(raises(ValueError, lambda: list(h[:])), f"{label}: h[:] no ValueError")
    check(h.out_port() == OutPort(node, 0), f"{label}: out_port()")


def check_port_identity() -> None:
    a = Node(3, _num_out_ports=2)
    b = Node(3)
    c = Node(3, {"meta": 1}, 7)
    d = Node(4, _num_out_ports=2)
    for x, y in itertools.combinations([a, b, c], 2):
        for off in (0, 1, 5):
            check(OutPort(x, off) == OutPort(y, off), "out ports equal by idx/offset")
            check(hash(OutPort(x, off)) == hash(OutPort(y, off)), "out port hash")
            check(InPort(x, off) == InPort(y, off), "in ports equal by idx/offset")
            check(hash(InPort(x, off)) == hash(InPort(y, off)), "in port hash")
            check(len({OutPort(x, off), OutPort(y, off)}) == 1, "set of equal ports")
    check(OutPort(a, 0) != OutPort(a, 1), "offset distinguishes")
    check(OutPort(a, 0) != OutPort(d, 0), "node index distinguishes")
    check(a[1] == OutPort(b, 1), "indexing yields port equal by idx/offset")
    check(hash(a[1]) == hash(b[1]), "hash of indexed port")


def graph_handles():
    """Handles returned by Hugr.add_node with an explicit count, in a history
    with deletions in between.
    """
    h = Hugr(ops.DFG([]))
    out = []
    for n in range(6):
        out.append((h.add_node(ops.Noop(tys.Bool), h.root, num_outs=n), n, f"add_node({n})"))
    # delete some, add again
    h.delete_node(out[1][0])
    h.delete_node(out[4][0])
    h.delete_node(out[2][0])
    out = [o for i, o in enumerate(out) if i not in (1, 2, 4)]
    for n in (4, 0, 2, 7, 1):
        node = h.add_node(ops.Noop(tys.Unit), h.root, num_outs=n)
        out.append((node, n, f"add_node({n}) after deletions"))
    un = h.add_node(ops.Noop(tys.Bool), h.root)
    return out, [(un, "add_node without count")]


def builder_handles():
    out = []
    unc = []

    mod = Module()
    f = mod.define_function("f", [tys.Bool, tys.Unit], [tys.Unit, tys.Bool, tys.Bool])
    b, u = f.inputs()
    f.set_outputs(u, b, b)
    f0 = mod.define_function("g", [], [])
    f0.set_outputs()

    main = mod.define_main([tys.Bool, tys.Unit, tys.Qubit])
    b, u, q = main.inputs()

    n = main.add_op(ops.Noop(), b)
    out.append((n, 1, "add_op(Noop)"))
    t = main.add(ops.MakeTuple()(b, u, b))
    out.append((t, 1, "add(MakeTuple)"))
    un = main.add_op(ops.UnpackTuple(), t)
    out.append((un, 3, "add_op(UnpackTuple)"))
    t0 = main.add(ops.MakeTuple()())
    un0 = main.add(ops.UnpackTuple()(t0))
    out.append((un0, 0, "add(UnpackTuple of empty tuple)"))
    e1, e2 = main.extend(ops.Noop()(un[2]), ops.UnpackTuple()(t))
    out.append((e1, 1, "extend[0]"))
    out.append((e2, 3, "extend[1]"))

    c = main.call(f, b, u)
    out.append((c, 3, "call(f)"))
    c0 = main.call(f0)
    out.append((c0, 0, "call(g)"))
    ld = main.load(val.TRUE)
    out.append((ld, 1, "load"))

    # nested DFG: built separately, then inserted
    inner = Dfg(tys.Bool, tys.Unit)
    ib, iu = inner.inputs()
    inner.set_outputs(iu, ib, iu, ib)
    out.append((inner, 4, "Dfg builder after set_outputs"))
    ins = main.insert_nested(inner, b, u)
    out.append((ins, 4, "insert_nested"))

    with main.add_nested(b) as nested:
        (nb,) = nested.inputs()
        nested.set_outputs(nb, nb)
    out.append((nested, 2, "add_nested builder after set_outputs"))

    # CFG
    def build_cfg(cfg: Cfg) -> None:
        with cfg.add_entry() as entry:
            entry.set_single_succ_outputs(*entry.inputs())
        cfg.branch(entry[0], cfg.exit)

    cfg = Cfg(tys.Bool, tys.Unit)
    build_cfg(cfg)
    out.append((cfg, 2, "Cfg builder after exit is connected"))
    cfg_n = main.insert_cfg(cfg, b, u)
    out.append((cfg_n, 2, "insert_cfg"))
    with main.add_cfg(b) as cfg2:
        build_cfg(cfg2)
    out.append((cfg2, 1, "add_cfg builder after exit is connected"))

    # Conditional
    either = tys.Either([tys.Qubit], [tys.Qubit, tys.Unit])

    def build_cond(cond: Conditional) -> None:
        with cond.add_case(0) as case0:
            cq, cb = case0.inputs()
            case0.set_outputs(cq, cb)
        with cond.add_case(1) as case1:
            cq, _u, cb = case1.inputs()
            case1.set_outputs(cq, cb)

    cond = Conditional(either, [tys.Bool])
    build_cond(cond)
    out.append((cond, 2, "Conditional builder after cases"))
    tagged = main.add(ops.Left(either)(q))
    cond_n = main.insert_conditional(cond, tagged, b)
    out.append((cond_n, 2, "insert_conditional"))
    tagged2 = main.add(ops.Left(either)(cond_n[0]))
    with main.add_conditional(tagged2, b) as cond2:
        build_cond(cond2)
    out.append((cond2, 2, "add_conditional builder after cases"))

    # Tail loop
    def build_tl(tl: TailLoop) -> None:
        (tb, tu) = tl.inputs()
        tl.set_loop_outputs(tl.add(ops.Continue(tys.Either([tys.Bool], [tys.Unit]))(tb)), tu)

    tl = TailLoop([tys.Bool], [tys.Unit])
    build_tl(tl)
    out.append((tl, 2, "TailLoop builder after set_loop_outputs"))
    tl_n = main.insert_tail_loop(tl, [b], [u])
    out.append((tl_n, 2, "insert_tail_loop"))
    with main.add_tail_loop([b], [u]) as tl2:
        build_tl(tl2)
    out.append((tl2, 2, "add_tail_loop builder after set_loop_outputs"))

    # a node used as a wire means its output 0: wiring `ld` and `un` as wires
    w1 = main.add_op(ops.Noop(), ld)
    w2 = main.add_op(ops.Noop(), un)
    hg = main.hugr
    check(list(hg.linked_ports(w1.inp(0))) == [OutPort(ld, 0)], "node as wire: load")
    check(list(hg.linked_ports(w2.inp(0))) == [OutPort(un, 0)], "node as wire: unpack")

    return out, unc


def run_checks() -> None:
    # bare handles for all small counts
    for n in range(7):
        check_counted(Node(5, _num_out_ports=n), n, f"Node(5, n={n})")
    check_uncounted(Node(5), "Node(5) without count")

    counted, uncounted = graph_handles()
    for h, n, label in counted:
        check_counted(h, n, label)
    for h, label in uncounted:
        check_uncounted(h, label)

    counted, uncounted = builder_handles()
    for h, n, label in counted:
        check_counted(h, n, label)
    for h, label in uncounted:
        check_uncounted(h, label)

    check_port_identity()


def observable() -> None:
    """Print what a user can see differ between the clean and changed tree."""
    # change 1 is a pure restructuring: nothing to show.
    print("observable: nothing (internal restructuring)")


if __name__ == "__main__":
    run_checks()
    observable()
    if FAILURES:
        for f in FAILURES[:20]:
            print("FAIL:", f)
        print(f"{len(FAILURES)} failures")
        sys.exit(1)
    print("PASS")
