"""Canonical observation of a HUGR through its public API, and the insertion oracle (C08)."""

from __future__ import annotations

import copy
from collections import Counter


def observe(h):
    """Snapshot via public queries only: __iter__, [], children, links, num_*_ports, metadata."""
    nodes = {}
    for n in h:
        d = h[n]
        nodes[n.idx] = {
            "op": d.op,
            "parent": d.parent.idx if d.parent is not None else None,
            "children": [c.idx for c in h.children(n)],
            "metadata": copy.deepcopy(d.metadata),
            "n_out": h.num_out_ports(n),
            "n_in": h.num_in_ports(n),
        }
    links = Counter((a.node.idx, a.offset, b.node.idx, b.offset) for a, b in h.links())
    # the same links as each end reports them (a preserved link is one both of its ports know about)
    hi_out, hi_in = {}, {}
    for (s, so, d, do) in links:
        hi_out[s] = max(hi_out.get(s, -1), so)
        hi_in[d] = max(hi_in.get(d, -1), do)
    from_out, from_in = Counter(), Counter()
    for n in h:
        for off in range(-1, max(nodes[n.idx]["n_out"], hi_out.get(n.idx, -1) + 1)):
            for q in h.linked_ports(n.out(off)):
                from_out[(n.idx, off, q.node.idx, q.offset)] += 1
        for off in range(-1, max(nodes[n.idx]["n_in"], hi_in.get(n.idx, -1) + 1)):
            for q in h.linked_ports(n.inp(off)):
                from_in[(q.node.idx, q.offset, n.idx, off)] += 1
    return {"nodes": nodes, "links": links, "root": h.root.idx, "links_from_out_ports": from_out, "links_from_in_ports": from_in}


def same_op(a, b) -> bool:
    if a is b:
        return True
    try:
        return type(a) is type(b) and a == b
    except Exception:  # noqa: BLE001
        return False


def check_insert(ctx, a_before, b_before, a_after, b_after, mapping, parent_idx, how="insert_hugr"):
    """mapping: dict[int,int] (B idx -> A idx). Violations are recorded on ctx (clause iso/frame/...)."""
    V = lambda clause, cls, detail: ctx.violate(clause, f"{cls}:{how}", detail)  # noqa: E731
    bn, an = b_before["nodes"], a_after["nodes"]
    ctx.checked("iso")
    if sorted(mapping) != sorted(bn):
        V("iso", "mapping-not-total", {"mapping": sorted(mapping.items()), "b_nodes": sorted(bn)})
        return
    if len(set(mapping.values())) != len(mapping):
        V("iso", "mapping-not-injective", {"mapping": sorted(mapping.items())})
        return
    if any(v in a_before["nodes"] for v in mapping.values()):
        V("iso", "image-overlaps-existing", {"mapping": sorted(mapping.items())})
        return
    if any(v not in an for v in mapping.values()):
        V("iso", "image-not-live", {"mapping": sorted(mapping.items())})
        return
    for bi, ai in sorted(mapping.items()):
        b, a = bn[bi], an[ai]
        if not same_op(a["op"], b["op"]):
            V("iso", "op", {"b": bi, "a": ai, "got": repr(a["op"]), "expected": repr(b["op"])})
        if bi == b_before["root"]:
            ctx.checked("root-placement")
            if a["parent"] != parent_idx:
                V("root-placement", "parent", {"got": a["parent"], "expected": parent_idx})
            elif ai not in an[parent_idx]["children"]:
                V("root-placement", "not-listed-as-child", {"parent": parent_idx})
        elif a["parent"] != mapping[b["parent"]]:
            V("iso", "parent", {"b": bi, "got": a["parent"], "expected": mapping[b["parent"]]})
        if a["children"] != [mapping[c] for c in b["children"]]:
            V("iso", "child-order", {"b": bi, "got": a["children"], "expected": [mapping[c] for c in b["children"]]})
        if a["metadata"] != b["metadata"]:
            V("iso", "metadata", {"b": bi, "got": repr(a["metadata"]), "expected": repr(b["metadata"])})
        if a["n_out"] != b["n_out"]:
            V("iso", "output-port-count", {"b": bi, "got": a["n_out"], "expected": b["n_out"]})
    image = set(mapping.values())
    exp_links = Counter()
    for (s, so, d, do), k in b_before["links"].items():
        exp_links[(mapping[s], so, mapping[d], do)] += k
    got_links = Counter({l: k for l, k in a_after["links"].items() if l[0] in image or l[2] in image})
    if got_links != exp_links:
        missing, extra = exp_links - got_links, got_links - exp_links
        kind = "order-links" if any(l[1] == -1 for l in list(missing) + list(extra)) else "links"
        V("iso", kind, {"missing": sorted(missing.elements()), "extra": sorted(extra.elements())})
    inside = lambda c: Counter({l: k for l, k in c.items() if l[0] in image and l[2] in image})  # noqa: E731
    for end in ("out", "in"):
        per_port = a_after.get(f"links_from_{end}_ports")
        if per_port is not None and inside(per_port) != inside(a_after["links"]):
            missing, extra = inside(a_after["links"]) - inside(per_port), inside(per_port) - inside(a_after["links"])
            V("iso", f"link-not-reported-by-its-{end}-port", {"missing": sorted(missing.elements())[:6], "extra": sorted(extra.elements())[:6]})
    # frame: everything A had before is unchanged
    ctx.checked("frame")
    for i, old in a_before["nodes"].items():
        new = an.get(i)
        if new is None:
            V("frame", "node-vanished", {"idx": i})
            continue
        if new["op"] is not old["op"] or new["parent"] != old["parent"] or new["metadata"] != old["metadata"]:
            V("frame", "node-changed", {"idx": i})
        kids = [c for c in new["children"] if c not in image]
        if kids != old["children"]:
            V("frame", "children-changed", {"idx": i, "got": new["children"], "before": old["children"]})
        added = [c for c in new["children"] if c in image]
        if added and (i != parent_idx or added != [mapping[b_before["root"]]]):
            V("frame", "unexpected-new-child", {"idx": i, "added": added})
        if new["n_out"] < old["n_out"] or new["n_in"] < old["n_in"]:
            V("frame", "port-count-shrunk", {"idx": i})
    old_links = Counter({l: k for l, k in a_after["links"].items() if l[0] not in image and l[2] not in image})
    if old_links != a_before["links"]:
        V("frame", "links-changed", {"missing": sorted((a_before["links"] - old_links).elements()),
                                     "extra": sorted((old_links - a_before["links"]).elements())})
    if len(an) != len(a_before["nodes"]) + len(bn):
        V("frame", "node-count", {"got": len(an), "expected": len(a_before["nodes"]) + len(bn)})
    # the source is not modified
    ctx.checked("source-unmodified")
    if not same_obs(b_before, b_after):
        V("source-unmodified", "changed", {"before": brief(b_before), "after": brief(b_after)})


def same_obs(x, y) -> bool:
    if x["links"] != y["links"] or x["root"] != y["root"] or sorted(x["nodes"]) != sorted(y["nodes"]):
        return False
    for i, a in x["nodes"].items():
        b = y["nodes"][i]
        if a["op"] is not b["op"] or any(a[k] != b[k] for k in ("parent", "children", "metadata", "n_out", "n_in")):
            return False
    return True


def brief(o):
    return {"nodes": {i: [n["parent"], n["children"], n["n_in"], n["n_out"]] for i, n in o["nodes"].items()},
            "links": sorted(o["links"].elements())}
