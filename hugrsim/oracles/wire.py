"""Wire-format oracle (C03): published strict schema, index sanity, port addressing predicted by
refsem from the serialised op (never from hugr.num_ports)."""

from __future__ import annotations

import json
import os

from . import refsem as R

_validators = {}


def _validator(defname: str):
    if defname not in _validators:
        import jsonschema

        repo = os.environ.get("HUGR_REPO", "/repo")
        path = os.path.join(repo, "specification", "schema", "hugr_schema_strict_live.json")
        with open(path) as f:
            schema = json.load(f)
        sub = {"$ref": f"#/$defs/{defname}", "$defs": schema["$defs"]}
        cls = jsonschema.validators.validator_for(schema)
        _validators[defname] = cls(sub)
    return _validators[defname]


def schema_errors(doc, defname="SerialHugr", limit=3):
    """[(json-pointer, message)] for the published strict schema."""
    v = _validator(defname)
    out = []
    for e in v.iter_errors(doc):
        best = e
        # descend into the most specific sub-error of anyOf/oneOf
        while best.context:
            best = max(best.context, key=lambda x: len(x.absolute_path))
        ptr = "/".join(str(p) if not isinstance(p, int) else "*" for p in best.absolute_path)
        out.append((ptr, best.message[:200]))
        if len(out) >= limit:
            break
    return out


def index_sanity(doc):
    """Node 0 is the root and own parent, other parents are different earlier nodes, edge endpoints exist."""
    errs = []
    nodes = doc["nodes"]
    n = len(nodes)
    if n == 0:
        return [("empty", {})]
    if nodes[0]["parent"] != 0:
        errs.append(("root-not-own-parent", {"parent": nodes[0]["parent"]}))
    for i in range(1, n):
        p = nodes[i]["parent"]
        if not isinstance(p, int) or p < 0 or p >= n:
            errs.append(("parent-out-of-range", {"node": i, "parent": p, "nodes": n}))
        elif p == i:
            errs.append(("second-root", {"node": i}))
        elif p > i:
            errs.append(("parent-not-earlier", {"node": i, "parent": p}))
    for e in doc["edges"]:
        for (node, _off) in e:
            if not isinstance(node, int) or node < 0 or node >= n:
                errs.append(("edge-endpoint-out-of-range", {"edge": e, "nodes": n}))
                break
    md = doc.get("metadata")
    if md is not None and len(md) != n:
        errs.append(("metadata-length", {"metadata": len(md), "nodes": n}))
    return errs


def predicted_edges(doc, mem_links, rank):
    """Document edges predicted for in-memory links [(s, so, d, do)] (offset -1 = order port)."""
    sems = [R.op_sem(o) for o in doc["nodes"]]
    out = []
    for (s, so, d, do) in mem_links:
        rs, rd = rank[s], rank[d]
        pso = so if so >= 0 else R.order_offset(sems[rs], "out")
        pdo = do if do >= 0 else R.order_offset(sems[rd], "in")
        out.append(((rs, pso), (rd, pdo)))
    return out


class NotJson(ValueError):
    pass


def strict_loads(text):
    """RFC 8259 JSON: Python's json module accepts NaN / Infinity / -Infinity tokens by default; a
    specification-conformant reader does not."""
    def bad(tok):
        raise NotJson(f"non-JSON token {tok}")
    if isinstance(text, (bytes, bytearray)):
        text = text.decode("utf-8")
    return json.loads(text, parse_constant=bad)
