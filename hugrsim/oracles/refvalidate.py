"""Reference validator over a serialised HUGR (JSON dict), following hugr-core/src/hugr/validate.rs
and ops/validate.rs.  Each rule is a named clause.  Returns a list of (clause, cls, detail).

Not implemented on purpose (not in the property's list / not enforced by default / needs the
extension registry): extension-delta inference, TypeArg-vs-TypeParam checking of extension ops and
opaque types, Call/LoadFunction instantiation == substitution, opaque-op resolution.
"""

from __future__ import annotations

from collections import defaultdict

from . import refsem as R


class Doc:
    def __init__(self, doc: dict):
        self.doc = doc
        self.ops = doc["nodes"]
        self.n = len(self.ops)
        self.parent = [o["parent"] for o in self.ops]
        self.children = defaultdict(list)
        for i, p in enumerate(self.parent):
            if i != 0 or p != 0:
                if i != p:
                    self.children[p].append(i)
        self.sem = [R.op_sem(o) for o in self.ops]
        self.edges = [((e[0][0], e[0][1]), (e[1][0], e[1][1])) for e in doc["edges"]]
        self.out_links = defaultdict(list)  # (node, off) -> [(node, off)]
        self.in_links = defaultdict(list)
        for (s, d) in self.edges:
            self.out_links[s].append(d)
            self.in_links[d].append(s)


def validate(doc: dict, known_extensions=None) -> list[tuple[str, str, dict]]:
    errs: list[tuple[str, str, dict]] = []
    E = lambda clause, cls, **detail: errs.append((clause, cls, detail))  # noqa: E731
    try:
        D = Doc(doc)
    except (KeyError, ValueError, IndexError, TypeError) as e:
        return [("malformed", type(e).__name__, {"error": repr(e)})]
    ops, sem = D.ops, D.sem
    opn = lambda i: ops[i]["op"]  # noqa: E731

    # 1. root
    if D.parent[0] != 0:
        E("root", "root-not-own-parent", parent=D.parent[0])
    for i in range(1, D.n):
        if not (0 <= D.parent[i] < D.n) or D.parent[i] == i:
            E("root", "bad-parent", node=i, parent=D.parent[i])
            return errs
    # hierarchy must be a tree rooted at 0
    for i in range(D.n):
        seen, j = set(), i
        while j != 0:
            if j in seen:
                E("root", "hierarchy-cycle", node=i)
                return errs
            seen.add(j)
            j = D.parent[j]
    if any(s[0] == 0 for s, _ in D.edges) or any(d[0] == 0 for _, d in D.edges):
        E("root", "root-with-edges")

    # 9. port-range (the reader creates exactly port_count ports; WrongNumberOfPorts otherwise)
    for (s, so), (d, do) in D.edges:
        if not (0 <= s < D.n and 0 <= d < D.n):
            E("port-range", "edge-endpoint-not-a-node", edge=[[s, so], [d, do]])
            return errs
        if so is None or do is None:
            continue
        if so >= R.n_out(sem[s]) or so < 0:
            E("port-range", f"out-offset-beyond-port-count:{opn(s)}", node=s, offset=so, count=R.n_out(sem[s]))
        if do >= R.n_in(sem[d]) or do < 0:
            E("port-range", f"in-offset-beyond-port-count:{opn(d)}", node=d, offset=do, count=R.n_in(sem[d]))

    # 2-4. parent/child, first/second child, requires-children
    for i in range(D.n):
        fl = sem[i]["flags"]
        kids = D.children[i]
        if i != 0:
            p = D.parent[i]
            if not R.tag_le(sem[i]["tag"], sem[p]["flags"]["children"]):
                E("parent-child", f"{opn(i)}-under-{opn(p)}", node=i, parent=p)
        if kids:
            if fl["children"] == "None":
                E("parent-child", f"non-container-with-children:{opn(i)}", node=i)
                continue
            if not R.tag_le(sem[kids[0]]["tag"], fl["first"]):
                E("first-child", f"{opn(kids[0])}-first-under-{opn(i)}", node=i)
            if len(kids) > 1 and not R.tag_le(sem[kids[1]]["tag"], fl["second"]):
                E("second-child", f"{opn(kids[1])}-second-under-{opn(i)}", node=i)
            if fl["first"] != "Any" and (len(kids) < 2 or not R.tag_le(sem[kids[0]]["tag"], fl["first"])
                                         or not R.tag_le(sem[kids[1]]["tag"], fl["second"])):
                continue  # children checks below assume the first two exist with the right ops
            # 5. io-rows
            if sem[i]["inner"] is not None:
                inn, out = sem[i]["inner"]
                a, b = kids[0], kids[1]
                if R.crow(sem[a]["vout"]) != R.crow(inn):
                    E("io-rows", f"input-row:{opn(i)}", node=i, got=sem[a]["vout"], expected=inn)
                if R.crow(sem[b]["vin"]) != R.crow(out):
                    E("io-rows", f"output-row:{opn(i)}", node=i, got=sem[b]["vin"], expected=out)
                for c in kids[2:]:
                    if sem[c]["tag"] in ("Input", "Output"):
                        E("io-rows", f"later-{opn(c)}", node=c)
            # 6. case-rows
            if opn(i) == "Conditional":
                rows = ops[i]["sum_rows"]
                if len(rows) != len(kids):
                    E("case-rows", "case-count", node=i, cases=len(kids), rows=len(rows))
                else:
                    for ci, c in enumerate(kids):
                        if opn(c) != "Case":
                            continue
                        ci_in, ci_out = sem[c]["inner"]
                        if R.crow(ci_in) != R.crow([*rows[ci], *ops[i]["other_inputs"]]) or \
                                R.crow(ci_out) != R.crow(ops[i]["outputs"]):
                            E("case-rows", "case-signature", node=c, index=ci)
            # 7. cfg-entry-exit, 8. cfg-edge-rows
            if opn(i) == "CFG":
                entry, exit_ = kids[0], kids[1]
                sig = ops[i]["signature"]
                if R.crow(sem[entry]["block_in"]) != R.crow(sig["input"]):
                    E("cfg-entry-exit", "entry-inputs", node=i)
                if R.crow(sem[exit_]["block_in"]) != R.crow(sig["output"]):
                    E("cfg-entry-exit", "exit-outputs", node=i, got=sem[exit_]["block_in"], expected=sig["output"])
                for c in kids[2:]:
                    if sem[c]["tag"] == "BasicBlockExit":
                        E("cfg-entry-exit", "later-exit-block", node=c)
                for c in kids:
                    for (s, so), (d, do) in D.edges:
                        if s == c and D.parent[d] == i and so is not None:
                            if opn(c) != "DataflowBlock" or opn(d) not in ("DataflowBlock", "ExitBlock"):
                                E("cfg-edge-rows", "edge-between-non-blocks", edge=[[s, so], [d, do]])
                                continue
                            rows = sem[c]["succ_rows"]
                            if so >= len(rows) or R.crow(rows[so]) != R.crow(sem[d]["block_in"]):
                                E("cfg-edge-rows", "successor-row-mismatch", edge=[[s, so], [d, do]])
            # 13. dag
            if fl["dag"]:
                kidset = set(kids)
                indeg = {k: 0 for k in kids}
                adj = defaultdict(list)
                for (s, so), (d, do) in D.edges:
                    if s in kidset and d in kidset:
                        adj[s].append(d)
                        indeg[d] += 1
                stack = [k for k in kids if indeg[k] == 0]
                seen = 0
                while stack:
                    x = stack.pop()
                    seen += 1
                    for y in adj[x]:
                        indeg[y] -= 1
                        if indeg[y] == 0:
                            stack.append(y)
                if seen != len(kids):
                    E("dag", f"cycle-in:{opn(i)}", node=i)
        elif fl["requires"]:
            E("parent-child", f"container-without-children:{opn(i)}", node=i)

    # type variables: nodes inside a FuncDefn may only use its params
    def var_decls(i):
        j = i
        while j != 0:
            j = D.parent[j]
            if opn(j) == "FuncDefn":
                return ops[j]["signature"]["params"]
            if j == 0:
                break
        return []

    def check_vars(t, decls, where, node):
        k = t["t"]
        if k == "V":
            if t["i"] >= len(decls) or R.cparam(decls[t["i"]]) != ("Type", t["b"]):
                E("type-vars", "undeclared-or-mismatched-variable", node=node, where=where, var=t["i"])
        elif k == "R":
            if t["i"] >= len(decls) or R.cparam(decls[t["i"]]) != ("List", ("Type", t["b"])):
                E("type-vars", "undeclared-or-mismatched-row-variable", node=node, where=where, var=t["i"])
        elif k == "G":
            for x in [*t["input"], *t["output"]]:
                check_vars(x, decls, where, node)
        elif k == "Sum" and t["s"] == "General":
            for r in t["rows"]:
                for x in r:
                    check_vars(x, decls, where, node)
        elif k == "Opaque":
            for a in t.get("args", []):
                if a["tya"] == "Type":
                    check_vars(a["ty"], decls, where, node)

    # 10-12. ports and edges
    for i in range(1, D.n):
        s = sem[i]
        decls = None
        for off in range(R.n_in(s)):
            kind = R.port_kind(s, "in", off)
            if kind[0] in ("value", "const", "function") and s["tag"] != "Case" and not D.in_links[(i, off)]:
                E("input-connected", f"unconnected-{kind[0]}-input:{opn(i)}", node=i, offset=off)
            # specification/hugr.md: "Incoming ports are associated with exactly one edge, or many ControlFlow edges"
            # (state order ports may have many). The Rust validator does not check this; the specification does.
            if kind[0] in ("value", "const", "function") and len(D.in_links[(i, off)]) > 1:
                E("input-once", f"{kind[0]}-input-with-{'parallel' if len(set(D.in_links[(i, off)])) == 1 else 'several'}-edges:{opn(i)}",
                  node=i, offset=off, sources=D.in_links[(i, off)][:4])
        for off in range(R.n_out(s)):
            kind = R.port_kind(s, "out", off)
            links = D.out_links[(i, off)]
            linear = kind[0] == "cf" or (kind[0] == "value" and R.bound(s["vout"][off]) == "A")
            if linear and len(links) != 1:
                E("linear-once", f"{'unused' if not links else 'copied'}-{'control-flow' if kind[0] == 'cf' else 'linear'}-output:{opn(i)}",
                  node=i, offset=off, links=len(links))
            if kind[0] == "value":
                if decls is None:
                    decls = var_decls(i)
                check_vars(s["vout"][off], decls, "out", i)
            for (d, do) in links:
                if do is None or do >= R.n_in(sem[d]) or do < 0:
                    continue
                okind = R.port_kind(sem[d], "in", do)
                if okind != kind:
                    if okind[0] != kind[0]:
                        E("edge-kind", f"{kind[0]}-to-{okind[0]}:{opn(i) if kind[0] != 'function' else opn(d)}", edge=[[i, off], [d, do]], dst_op=opn(d))
                    else:
                        E("edge-type", f"{kind[0]}-type-mismatch:{opn(i)}->{opn(d)}", edge=[[i, off], [d, do]],
                          src=_show(s, "out", off), dst=_show(sem[d], "in", do))
                    continue
                # 14. non-local edges
                if D.parent[i] == D.parent[d]:
                    continue
                static = kind[0] in ("const", "function")
                if not static and not (kind[0] == "value" and R.bound(s["vout"][off]) == "C"):
                    E("nonlocal-copyable", f"nonlocal-{kind[0]}-edge", edge=[[i, off], [d, do]], ops=f"{opn(i)}->{opn(d)}")
                    continue
                from_parent = D.parent[i]
                from_pp = D.parent[from_parent] if from_parent != 0 else None
                entered_func = False
                anc = D.parent[d]
                verdict = "no-relation"
                while True:
                    if anc == 0:
                        break
                    ancp = D.parent[anc]
                    if not static and opn(anc) == "FuncDefn":
                        entered_func = True
                    if ancp == from_parent:
                        if entered_func:
                            verdict = "value-into-func"
                        elif not static and not _has_order_edge(D, i, s, anc):
                            verdict = "ext-edge-order"
                        else:
                            verdict = "ok"
                        break
                    if from_pp is not None and ancp == from_pp and not static:
                        if opn(ancp) != "CFG":
                            verdict = "dom-edge-non-cfg"
                        elif entered_func:
                            verdict = "value-into-func"
                        elif not _dominates(D, ancp, from_parent, anc):
                            verdict = "dom-edge"
                        else:
                            verdict = "ok"
                        break
                    anc = ancp
                if verdict != "ok":
                    E(verdict if verdict in ("ext-edge-order", "dom-edge", "value-into-func") else "no-relation",
                      f"{verdict}", edge=[[i, off], [d, do]], ops=f"{opn(i)}->{opn(d)}")
    # 15. const-inhabits
    for i in range(D.n):
        if opn(i) == "Const":
            for (cls, det) in check_value(ops[i]["v"]):
                E("const-inhabits", cls, node=i, **det)
    return errs


def _show(s, direction, off):
    v = (s["vin"] or []) if direction == "in" else s["vout"]
    if off < len(v):
        return v[off]
    st = s["sin"] if direction == "in" else s["sout"]
    return repr(st)[:300]


def _has_order_edge(D: Doc, src: int, s, target: int) -> bool:
    oo = R.order_offset(s, "out")
    if oo is None:
        return False
    return any(d == target for (d, _do) in D.out_links[(src, oo)])


def _dominates(D: Doc, cfg: int, a: int, b: int) -> bool:
    """Does block a dominate block b in the CFG region (entry = first child)?"""
    kids = D.children[cfg]
    kidset = set(kids)
    succ = defaultdict(set)
    for (s, so), (d, do) in D.edges:
        if s in kidset and d in kidset:
            succ[s].add(d)
    entry = kids[0]
    # nodes reachable from entry without passing through a
    if b == a:
        return True
    if entry == a:
        return _reachable(succ, entry, b, None)
    seen, stack = {entry}, [entry]
    while stack:
        x = stack.pop()
        if x == b:
            return False
        for y in succ[x]:
            if y != a and y not in seen:
                seen.add(y)
                stack.append(y)
    # b not reachable avoiding a: dominated iff reachable at all (petgraph: unreachable -> no dominators)
    return _reachable(succ, entry, b, None)


def _reachable(succ, a, b, _):
    seen, stack = {a}, [a]
    while stack:
        x = stack.pop()
        if x == b:
            return True
        for y in succ[x]:
            if y not in seen:
                seen.add(y)
                stack.append(y)
    return False


def check_value(v) -> list[tuple[str, dict]]:
    out = []
    k = v["v"]
    if k == "Sum":
        t = v["typ"]
        if t["s"] == "Unit":
            rows = [[] for _ in range(t["size"])]
        else:
            rows = t["rows"]
        tag = v.get("tag", 0)
        if not (0 <= tag < len(rows)):
            out.append(("tag-out-of-range", {"tag": tag, "variants": len(rows)}))
            return out
        row = rows[tag]
        if len(row) != len(v["vs"]):
            out.append(("field-count", {"tag": tag, "expected": len(row), "got": len(v["vs"])}))
            return out
        for j, (ty, x) in enumerate(zip(row, v["vs"])):
            out.extend(check_value(x))
            try:
                if R.ctype(R.value_type(x)) != R.ctype(ty):
                    out.append(("field-type", {"tag": tag, "field": j, "expected": ty, "got": R.value_type(x)}))
            except ValueError as e:
                out.append(("malformed-value", {"error": repr(e)}))
    elif k == "Tuple":
        for x in v["vs"]:
            out.extend(check_value(x))
    elif k == "Function":
        root = v["hugr"]["nodes"][0]
        if root["op"] == "DFG":
            pass
        elif root["op"] == "FuncDefn" and not root["signature"]["params"]:
            pass
        else:
            out.append(("function-value-root", {"op": root["op"]}))
        for (cl, cls, det) in validate(v["hugr"]):
            out.append((f"nested:{cl}/{cls}", det))
    return out
