"""A small parser for the subset of DOT that graphviz.Digraph.source emits for hugr's renderer:
nested `subgraph clusterN { ... }`, node statements with HTML labels, edge statements
`a:"out.k" -> b:"in.k" [label=... ...]`."""

from __future__ import annotations

import html
import re

NODE_START = re.compile(r'^\t*("?)(-?\d+)\1 \[label=<\s*$')
NODE_END = re.compile(r'^\s*> shape=plain\]\s*$')
SUB_START = re.compile(r'^\t*subgraph ("?)([A-Za-z_0-9]+)\1 \{\s*$')
EDGE = re.compile(r'^\t*("?)(-?\d+)\1:("?)(in|out)\.(-?\d+|None)\3 -> ("?)(-?\d+)\6:("?)(in|out)\.(-?\d+|None)\8 \[(.*)\]\s*$')
PORT = re.compile(r'PORT="(in|out)\.(-?\d+)"')
BOLD = re.compile(r'<B>(.*?)</B>', re.S)


class DotError(Exception):
    pass


def parse_attrs(s: str) -> dict:
    """key=value pairs where value is bare or a double-quoted string with backslash escapes."""
    out = {}
    i, n = 0, len(s)
    while i < n:
        while i < n and s[i] == " ":
            i += 1
        if i >= n:
            break
        j = s.index("=", i)
        key = s[i:j]
        i = j + 1
        if i < n and s[i] == '"':
            i += 1
            buf = []
            while i < n and s[i] != '"':
                if s[i] == "\\" and i + 1 < n:
                    buf.append(s[i + 1])
                    i += 2
                else:
                    buf.append(s[i])
                    i += 1
            i += 1
            out[key] = "".join(buf)
        else:
            j = i
            while j < n and s[j] != " ":
                j += 1
            out[key] = s[i:j]
            i = j
    return out


def parse(source: str) -> dict:
    """-> {"nodes": {idx: {"cluster_path": [...], "label": str, "in_cells": [...], "out_cells": [...], "name": str, "count": n}},
           "clusters": {name: parent_name|None}, "edges": [(s, sdir, so, d, ddir, do, attrs)], "graph_attrs": {...}}"""
    lines = source.split("\n")
    if not lines or not lines[0].startswith("digraph"):
        raise DotError("not a digraph")
    nodes, clusters, edges = {}, {}, []
    counts = {}
    stack = []
    i = 1
    while i < len(lines):
        ln = lines[i]
        m = NODE_START.match(ln)
        if m:
            idx = int(m.group(2))
            j = i + 1
            buf = []
            while j < len(lines) and not NODE_END.match(lines[j]):
                buf.append(lines[j])
                j += 1
            if j >= len(lines):
                raise DotError(f"unterminated label of node {idx}")
            label = "\n".join(buf)
            counts[idx] = counts.get(idx, 0) + 1
            b = BOLD.search(label)
            nodes[idx] = {"cluster_path": list(stack), "label": label,
                          "in_cells": [int(k) for d, k in PORT.findall(label) if d == "in"],
                          "out_cells": [int(k) for d, k in PORT.findall(label) if d == "out"],
                          "name": html.unescape(b.group(1)) if b else None, "count": counts[idx]}
            i = j + 1
            continue
        m = SUB_START.match(ln)
        if m:
            name = m.group(2)
            if name in clusters:
                raise DotError(f"cluster {name} twice")
            clusters[name] = stack[-1] if stack else None
            stack.append(name)
            i += 1
            continue
        if ln.strip() == "}":
            if stack:
                stack.pop()
            i += 1
            continue
        m = EDGE.match(ln)
        if m:
            g = m.groups()
            so = None if g[4] == "None" else int(g[4])
            do = None if g[9] == "None" else int(g[9])
            edges.append((int(g[1]), g[3], so, int(g[6]), g[8], do, parse_attrs(g[10])))
            i += 1
            continue
        if "->" in ln:
            raise DotError(f"unparsed edge statement: {ln[:120]}")
        i += 1
    return {"nodes": nodes, "clusters": clusters, "edges": edges}
