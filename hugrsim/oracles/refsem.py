"""Reference semantics of a *serialised* operation (a JSON dict), written from the Rust sources
(hugr-core/src/ops.rs, ops/dataflow.rs, ops/controlflow.rs, ops/module.rs, ops/constant.rs,
ops/tag.rs, ops/validate.rs, types.rs).  Nothing is imported from hugr-py.

Types are JSON dicts as they appear in documents.  Both a sum that Rust derives and a sum type
read from a document go through Type::new_sum (NS), which turns an all-empty-rows sum into
Unit{size}; ctype() therefore identifies General{rows: all empty} with Unit{len(rows)}.
"""

from __future__ import annotations

QUBIT = {"t": "Q"}


def NS(rows):
    """Type::new_sum."""
    if len(rows) <= 255 and all(len(r) == 0 for r in rows):
        return {"t": "Sum", "s": "Unit", "size": len(rows)}
    return {"t": "Sum", "s": "General", "rows": [list(r) for r in rows]}


def G(sig):
    """A function signature used as a value type."""
    return {"t": "G", "input": sig["input"], "output": sig["output"], "runtime_reqs": sig.get("runtime_reqs", [])}


# ---------------------------------------------------------------------------------------------
# structural type identity as Rust's derived PartialEq sees it


def ctype(t):
    """Canonical hashable form of a type (runtime_reqs compared as sets)."""
    k = t["t"]
    if k == "Q":
        return ("Q",)
    if k == "I":
        return ("I",)
    if k == "G":
        return ("G", crow(t["input"]), crow(t["output"]), tuple(sorted(set(t.get("runtime_reqs", [])))))
    if k == "Sum":
        if t["s"] == "Unit":
            return ("Sum", "Unit", t["size"])
        # the Rust reader builds every sum through Type::new_sum (types.rs: From<SumType> for TypeBase),
        # so a general sum whose rows are all empty *is* the unit sum of that size
        if len(t["rows"]) <= 255 and all(len(r) == 0 for r in t["rows"]):
            return ("Sum", "Unit", len(t["rows"]))
        return ("Sum", "General", tuple(crow(r) for r in t["rows"]))
    if k == "Opaque":
        return ("Opaque", t["extension"], t["id"], tuple(carg(a) for a in t.get("args", [])), t["bound"])
    if k == "Alias":
        return ("Alias", t["name"], t["bound"])
    if k == "V":
        return ("V", t["i"], t["b"])
    if k == "R":
        return ("R", t["i"], t["b"])
    raise ValueError(f"unknown type tag {k!r}")


def crow(row):
    return tuple(ctype(t) for t in row)


def cparam(p):
    k = p["tp"]
    if k == "Type":
        return ("Type", p["b"])
    if k == "BoundedNat":
        return ("BoundedNat", p.get("bound"))
    if k == "String":
        return ("String",)
    if k == "List":
        return ("List", cparam(p["param"]))
    if k == "Tuple":
        return ("Tuple", tuple(cparam(x) for x in p["params"]))
    if k == "Extensions":
        return ("Extensions",)
    raise ValueError(f"unknown param {k!r}")


def carg(a):
    k = a["tya"]
    if k == "Type":
        return ("Type", ctype(a["ty"]))
    if k == "BoundedNat":
        return ("BoundedNat", a["n"])
    if k == "String":
        return ("String", a["arg"])
    if k == "Sequence":
        return ("Sequence", tuple(carg(x) for x in a["elems"]))
    if k == "Extensions":
        return ("Extensions", tuple(sorted(set(a["es"]))))
    if k == "Variable":
        return ("Variable", a["idx"], cparam(a["cached_decl"]))
    raise ValueError(f"unknown type arg {k!r}")


def cpoly(pf):
    return (tuple(cparam(p) for p in pf["params"]), ctype(G(pf["body"])))


def bound(t) -> str:
    """'C' (copyable) or 'A' (any / linear)."""
    k = t["t"]
    if k == "Q":
        return "A"
    if k in ("I", "G"):
        return "C"
    if k == "Sum":
        if t["s"] == "Unit":
            return "C"
        return "A" if any(bound(x) == "A" for r in t["rows"] for x in r) else "C"
    if k in ("Opaque", "Alias"):
        return t["bound"]
    if k in ("V", "R"):
        return t["b"]
    raise ValueError(k)


# ---------------------------------------------------------------------------------------------
# constants


def value_type(v):
    k = v["v"]
    if k == "Sum":
        t = dict(v["typ"])
        t.setdefault("t", "Sum")
        return t
    if k == "Tuple":
        return NS([[value_type(x) for x in v["vs"]]])
    if k == "Extension":
        return v["typ"]
    if k == "Function":
        root = v["hugr"]["nodes"][0]
        s = op_sem(root)
        inner = s.get("inner")
        if inner is None:
            raise ValueError("function value whose root has no inner signature")
        return G({"input": inner[0], "output": inner[1], "runtime_reqs": []})
    raise ValueError(f"unknown value {k!r}")


# ---------------------------------------------------------------------------------------------
# operations

TAG_PARENTS = {
    "Any": [], "None": ["Any"], "ModuleOp": ["Any"], "ControlFlowChild": ["Any"], "DataflowChild": ["Any"],
    "Input": ["DataflowChild"], "Output": ["DataflowChild"], "Function": ["ModuleOp", "StaticOutput"],
    "Alias": ["ScopedDefn"], "FuncDefn": ["Function", "ScopedDefn", "DataflowParent"],
    "DataflowBlock": ["ControlFlowChild", "DataflowParent"], "BasicBlockExit": ["ControlFlowChild"],
    "Case": ["Any", "DataflowParent"], "ModuleRoot": ["Any"], "Const": ["ScopedDefn", "StaticOutput"],
    "Dfg": ["DataflowChild", "DataflowParent"], "Cfg": ["DataflowChild"],
    "ScopedDefn": ["DataflowChild", "ControlFlowChild", "ModuleOp"],
    "TailLoop": ["DataflowChild", "DataflowParent"], "Conditional": ["DataflowChild"],
    "StaticInput": ["Any"], "StaticOutput": ["Any"], "FnCall": ["StaticInput", "DataflowChild"],
    "LoadConst": ["StaticInput", "DataflowChild"], "LoadFunc": ["StaticInput", "DataflowChild"],
    "Leaf": ["DataflowChild"], "DataflowParent": ["Any"],
}


def tag_le(tag: str, sup: str) -> bool:
    """sup.is_superset(tag)"""
    if tag == sup or sup == "Any":
        return True
    return any(tag_le(p, sup) for p in TAG_PARENTS[tag])


DF_PARENT_FLAGS = {"children": "DataflowChild", "first": "Input", "second": "Output", "requires": True, "dag": True}


def op_sem(op: dict) -> dict:
    """Semantics of one serialised op.

    Keys: tag; vin, vout (value rows); sin / sout (static port kind tuple or None);
    oin / oout: ("order"|"cf"|None, count); inner (input row, output row) for dataflow parents;
    flags: allowed children / first / second child tags, requires_children, requires_dag.
    """
    k = op["op"]
    s = {"tag": None, "vin": [], "vout": [], "sin": None, "sout": None, "oin": (None, 0), "oout": (None, 0),
         "inner": None, "flags": {"children": "None", "first": "Any", "second": "Any", "requires": False, "dag": False}}
    O = ("order", 1)
    if k == "Module":
        s["tag"] = "ModuleRoot"
        s["flags"] = {"children": "ModuleOp", "first": "Any", "second": "Any", "requires": False, "dag": False}
    elif k == "FuncDefn":
        s["tag"] = "FuncDefn"
        s["sout"] = ("Function", cpoly(op["signature"]))
        b = op["signature"]["body"]
        s["inner"] = (b["input"], b["output"])
        s["flags"] = DF_PARENT_FLAGS
        s["params"] = op["signature"]["params"]
    elif k == "FuncDecl":
        s["tag"] = "Function"
        s["sout"] = ("Function", cpoly(op["signature"]))
    elif k in ("AliasDecl", "AliasDefn"):
        s["tag"] = "Alias"
    elif k == "Const":
        s["tag"] = "Const"
        s["sout"] = ("Const", ctype(value_type(op["v"])))
    elif k == "Input":
        s["tag"] = "Input"
        s["vout"] = op["types"]
        s["oout"] = O
    elif k == "Output":
        s["tag"] = "Output"
        s["vin"] = op["types"]
        s["oin"] = O
    elif k == "DFG":
        s["tag"] = "Dfg"
        sig = op["signature"]
        s["vin"], s["vout"] = sig["input"], sig["output"]
        s["oin"] = s["oout"] = O
        s["inner"] = (sig["input"], sig["output"])
        s["flags"] = DF_PARENT_FLAGS
    elif k == "Extension":
        s["tag"] = "Leaf"
        sig = op["signature"]
        s["vin"], s["vout"] = sig["input"], sig["output"]
        s["oin"] = s["oout"] = O
    elif k == "Tag":
        s["tag"] = "Leaf"
        s["vin"] = op["variants"][op["tag"]] if 0 <= op["tag"] < len(op["variants"]) else None
        s["vout"] = [NS(op["variants"])]
        s["oin"] = s["oout"] = O
    elif k == "Call":
        s["tag"] = "FnCall"
        inst = op["instantiation"]
        s["vin"], s["vout"] = inst["input"], inst["output"]
        s["sin"] = ("Function", cpoly(op["func_sig"]))
        s["oin"] = s["oout"] = O
    elif k == "CallIndirect":
        s["tag"] = "DataflowChild"
        sig = op["signature"]
        s["vin"], s["vout"] = [G(sig), *sig["input"]], sig["output"]
        s["oin"] = s["oout"] = O
    elif k == "LoadConstant":
        s["tag"] = "LoadConst"
        s["vout"] = [op["datatype"]]
        s["sin"] = ("Const", ctype(op["datatype"]))
        s["oin"] = s["oout"] = O
    elif k == "LoadFunction":
        s["tag"] = "LoadFunc"
        s["vout"] = [G(op["instantiation"])]
        s["sin"] = ("Function", cpoly(op["func_sig"]))
        s["oin"] = s["oout"] = O
    elif k == "Conditional":
        s["tag"] = "Conditional"
        s["vin"] = [NS(op["sum_rows"]), *op["other_inputs"]]
        s["vout"] = op["outputs"]
        s["oin"] = s["oout"] = O
        s["flags"] = {"children": "Case", "first": "Any", "second": "Any", "requires": True, "dag": False}
    elif k == "Case":
        s["tag"] = "Case"
        sig = op["signature"]
        s["inner"] = (sig["input"], sig["output"])
        s["flags"] = DF_PARENT_FLAGS
    elif k == "TailLoop":
        s["tag"] = "TailLoop"
        ji, jo, rest = op["just_inputs"], op["just_outputs"], op["rest"]
        s["vin"] = [*ji, *rest]
        s["vout"] = [*jo, *rest]
        s["oin"] = s["oout"] = O
        s["inner"] = ([*ji, *rest], [NS([ji, jo]), *rest])
        s["flags"] = DF_PARENT_FLAGS
    elif k == "CFG":
        s["tag"] = "Cfg"
        sig = op["signature"]
        s["vin"], s["vout"] = sig["input"], sig["output"]
        s["oin"] = s["oout"] = O
        s["flags"] = {"children": "ControlFlowChild", "first": "DataflowBlock", "second": "BasicBlockExit",
                      "requires": True, "dag": False}
    elif k == "DataflowBlock":
        s["tag"] = "DataflowBlock"
        s["oin"] = ("cf", 1)
        s["oout"] = ("cf", len(op["sum_rows"]))
        s["inner"] = (op["inputs"], [NS(op["sum_rows"]), *op["other_outputs"]])
        s["flags"] = DF_PARENT_FLAGS
        s["succ_rows"] = [[*r, *op["other_outputs"]] for r in op["sum_rows"]]
        s["block_in"] = op["inputs"]
    elif k == "ExitBlock":
        s["tag"] = "BasicBlockExit"
        s["oin"] = ("cf", 1)
        s["block_in"] = op["cfg_outputs"]
    else:
        raise ValueError(f"unknown op {k!r}")
    return s


def n_in(s) -> int:
    return len(s["vin"] or []) + (1 if s["sin"] else 0) + s["oin"][1]


def n_out(s) -> int:
    return len(s["vout"]) + (1 if s["sout"] else 0) + s["oout"][1]


def port_kind(s, direction: str, offset: int):
    """('value', ctype) | ('const', ctype) | ('function', cpoly) | ('order',) | ('cf',) | None (no such port)."""
    if direction == "in":
        v, st, other = s["vin"] or [], s["sin"], s["oin"]
    else:
        v, st, other = s["vout"], s["sout"], s["oout"]
    if offset < 0:
        return None
    if offset < len(v):
        return ("value", ctype(v[offset]))
    offset -= len(v)
    if st:
        if offset == 0:
            return ("const" if st[0] == "Const" else "function", st[1])
        offset -= 1
    if offset < other[1]:
        return ("order",) if other[0] == "order" else ("cf",)
    return None


def order_offset(s, direction: str):
    """Offset of the state-order port, or None if the op has none."""
    other = s["oin"] if direction == "in" else s["oout"]
    if other[0] != "order":
        return None
    v = (s["vin"] or []) if direction == "in" else s["vout"]
    st = s["sin"] if direction == "in" else s["sout"]
    return len(v) + (1 if st else 0)
