"""Oracle for the hugr-model export (C12): walks hugr.model dataclasses (never str()/bytes() them:
the native module is absent offline) and compares with the HUGR observed through its public API
and with refsem's value-port counts of the serialised ops."""

from __future__ import annotations

import json
import os
import re

from . import refsem as R

EXPECTED_FIELDS = {
    "Var": ["name"], "Apply": ["symbol", "args"], "List": ["parts"], "Tuple": ["parts"], "Literal": ["value"],
    "Func": ["region"], "Splice": ["seq"], "Param": ["name", "type"],
    "Symbol": ["name", "params", "constraints", "signature"],
    "Node": ["operation", "inputs", "outputs", "regions", "meta", "signature"],
    "DefineFunc": ["symbol"], "DeclareFunc": ["symbol"], "DeclareConstructor": ["symbol"], "DeclareOperation": ["symbol"],
    "DeclareAlias": ["symbol"], "DefineAlias": ["symbol", "value"], "Import": ["name"], "CustomOp": ["operation"],
    "Region": ["kind", "sources", "targets", "children", "meta", "signature"], "Module": ["root"], "Package": ["modules"],
    "Wildcard": [], "InvalidOp": [], "Dfg": [], "Cfg": [], "Block": [], "TailLoop": [], "Conditional": [],
}


def check_fields():
    """Static: the Python model classes expose exactly the attributes python.rs reads. [(cls, detail)]"""
    import dataclasses

    import hugr.model as model

    out = []
    repo = os.environ.get("HUGR_REPO", "/repo")
    src = open(os.path.join(repo, "hugr-model", "src", "v0", "ast", "python.rs")).read()
    read = set(re.findall(r'\.getattr\("([a-z_#]+)"\)', src))
    classes = set(re.findall(r'py_module\.getattr\("([A-Za-z]+)"\)', src))
    table_attrs = {a for v in EXPECTED_FIELDS.values() for a in v}
    if read != table_attrs or classes != set(EXPECTED_FIELDS):
        out.append(("harness-table-out-of-date", {"read_not_in_table": sorted(read - table_attrs),
                                                  "table_not_read": sorted(table_attrs - read),
                                                  "classes": sorted(classes ^ set(EXPECTED_FIELDS))}))
        return out
    for cname, attrs in sorted(EXPECTED_FIELDS.items()):
        cls = getattr(model, cname, None)
        if cls is None:
            out.append((f"class-missing:{cname}", {}))
            continue
        have = [f.name for f in dataclasses.fields(cls)] if dataclasses.is_dataclass(cls) else []
        if sorted(have) != sorted(attrs):
            out.append((f"fields:{cname}", {"python": have, "rust_reads": attrs}))
    return out


class Checker:
    def __init__(self, ctx, hugr, module, doc):
        self.ctx = ctx
        self.h = hugr
        self.mod = module
        self.doc = doc
        self.live = [n for n in hugr]
        from ..engines.c_persist import doc_positions
        self.rank = doc_positions(ctx, hugr, doc, "model-export") or {n.idx: r for r, n in enumerate(self.live)}
        self.sem = {n.idx: R.op_sem(doc["nodes"][self.rank[n.idx]]) for n in self.live}
        self.port_name = {}  # ("in"/"out", idx, off) -> name
        self.symbols = {}  # node idx -> symbol name
        self.symbol_names = []
        self.applied = []  # (node idx, applied name)

    def V(self, clause, cls, detail):
        self.ctx.violate(clause, cls, detail)

    def opname(self, n):
        return self.doc["nodes"][self.rank[n.idx]]["op"]

    def run(self):
        import hugr.model as model

        h = self.h
        root = self.mod.root
        self.ctx.checked("region-shape")
        if root.kind != model.RegionKind.MODULE:
            self.V("region-shape", "module-kind", {"kind": repr(root.kind)})
        kids = [c for c in h.children(h.root) if self.opname(c) != "Const"]
        self.match_children(kids, root.children, "module")
        self.check_links()
        self.check_symbols()

    def match_children(self, hugr_nodes, model_nodes, where):
        if len(hugr_nodes) != len(model_nodes):
            self.V("region-shape", f"child-count:{where}", {"hugr": [n.idx for n in hugr_nodes], "model": len(model_nodes)})
            return
        for n, mn in zip(hugr_nodes, model_nodes):
            self.check_node(n, mn)

    def df_region(self, parent, region, where):
        """A dataflow region mirrors parent's children: Input -> sources, Output -> targets, Const inlined."""
        import hugr.model as model

        h = self.h
        kids = h.children(parent)
        if region.kind != model.RegionKind.DATA_FLOW:
            self.V("region-shape", f"kind:{where}", {"kind": repr(region.kind)})
        inp, outp = kids[0], kids[1]
        n_src = len(self.sem[inp.idx]["vout"])
        n_tgt = len(self.sem[outp.idx]["vin"])
        self.ctx.checked("ports")
        if len(region.sources) != n_src:
            self.V("ports", f"region-sources:{where}", {"node": parent.idx, "got": len(region.sources), "expected": n_src})
        if len(region.targets) != n_tgt:
            self.V("ports", f"region-targets:{where}", {"node": parent.idx, "got": len(region.targets), "expected": n_tgt})
        for i, name in enumerate(region.sources):
            self.port_name[("out", inp.idx, i)] = name
        for i, name in enumerate(region.targets):
            self.port_name[("in", outp.idx, i)] = name
        body = [c for c in kids[2:] if self.opname(c) != "Const"]
        self.match_children(body, region.children, where)
        # order hints between non-boundary siblings
        self.ctx.checked("order-hint")
        keys = {}
        for c, mn in zip(body, region.children) if len(body) == len(region.children) else []:
            for t in mn.meta:
                if isinstance(t, model.Apply) and t.symbol == "core.order_hint.key":
                    keys[c.idx] = t.args[0].value if t.args else None
        hints = set()
        for t in (region.meta or []):
            if isinstance(t, model.Apply) and t.symbol == "core.order_hint.order" and len(t.args) == 2:
                hints.add((t.args[0].value, t.args[1].value))
        bodyset = {c.idx for c in body}
        for c in body:
            for succ in h.outgoing_order_links(c):
                if succ.idx not in bodyset:
                    continue
                self.ctx.probe("order_edge_between_siblings")
                if c.idx not in keys or succ.idx not in keys:
                    self.V("order-hint", "key-missing", {"edge": [c.idx, succ.idx], "keys": sorted(keys)})
                elif (keys[c.idx], keys[succ.idx]) not in hints:
                    self.V("order-hint", "region-meta-missing", {"edge": [c.idx, succ.idx], "region_meta": len(region.meta or [])})

    def check_node(self, n, mn):
        import hugr.model as model

        h = self.h
        op = self.opname(n)
        sem = self.sem[n.idx]
        data = h[n]
        # value ports (control ports for blocks)
        self.ctx.checked("ports")
        if op == "DataflowBlock":
            exp_in, exp_out = 1, sem["oout"][1]
        elif op in ("FuncDefn", "FuncDecl", "AliasDecl", "AliasDefn"):
            exp_in = exp_out = 0
        else:
            exp_in, exp_out = len(sem["vin"] or []), len(sem["vout"])
        if len(mn.inputs) != exp_in:
            cls = "static-port-listed" if sem["sin"] and len(mn.inputs) == exp_in + 1 else "input-count"
            self.V("ports", f"{cls}:{op}", {"node": n.idx, "got": len(mn.inputs), "expected": exp_in})
        if len(mn.outputs) != exp_out:
            cls = "unlinked-output-missing" if len(mn.outputs) < exp_out else "output-count"
            self.V("ports", f"{cls}:{op}", {"node": n.idx, "got": len(mn.outputs), "expected": exp_out})
        for i, name in enumerate(mn.inputs[:exp_in]):
            self.port_name[("in", n.idx, i)] = name
        for i, name in enumerate(mn.outputs[:exp_out]):
            self.port_name[("out", n.idx, i)] = name
        # metadata
        self.ctx.checked("metadata")
        for k, v in data.metadata.items():
            want = ("compat.meta_json", k, json.dumps(v))
            have = [(t.symbol, t.args[0].value, t.args[1].value) for t in mn.meta
                    if isinstance(t, model.Apply) and t.symbol == "compat.meta_json" and len(t.args) == 2]
            if want not in have:
                self.V("metadata", f"not-carried:{op}", {"node": n.idx, "key": k})
        # operation kind and regions
        self.ctx.checked("region-shape")
        kids = h.children(n)
        expect_cls = {"DFG": "Dfg", "FuncDefn": "DefineFunc", "FuncDecl": "DeclareFunc", "TailLoop": "TailLoop",
                      "Conditional": "Conditional", "CFG": "Cfg", "DataflowBlock": "Block", "AliasDecl": "DeclareAlias",
                      "AliasDefn": "DefineAlias"}.get(op, "CustomOp")
        if type(mn.operation).__name__ != expect_cls:
            self.V("region-shape", f"operation-class:{op}", {"got": type(mn.operation).__name__, "expected": expect_cls})
        nd = self.doc["nodes"][self.rank[n.idx]]
        if op == "Extension" and isinstance(mn.operation, model.CustomOp):
            # faithful: the custom operation applied is the one the node names (extension-qualified)
            self.ctx.checked("custom-op-symbol")
            term = mn.operation.operation
            want = f"{nd['extension']}.{nd['name']}"
            got = term.symbol if isinstance(term, model.Apply) else repr(term)
            if got != want:
                self.V("custom-op-symbol", "other-operation", {"node": n.idx, "exported": got, "node_names": want})
        if op in ("DFG", "FuncDefn", "TailLoop", "DataflowBlock"):
            if len(mn.regions) != 1:
                self.V("region-shape", f"region-count:{op}", {"got": len(mn.regions)})
            else:
                self.df_region(n, mn.regions[0], op)
        elif op == "Conditional":
            if len(mn.regions) != len(kids):
                self.V("region-shape", "case-count", {"cases": len(kids), "regions": len(mn.regions)})
            else:
                for case, reg in zip(kids, mn.regions):
                    self.df_region(case, reg, "Case")
        elif op == "CFG":
            if len(mn.regions) != 1:
                self.V("region-shape", "region-count:CFG", {"got": len(mn.regions)})
            else:
                reg = mn.regions[0]
                if reg.kind != model.RegionKind.CONTROL_FLOW:
                    self.V("region-shape", "kind:CFG", {"kind": repr(reg.kind)})
                blocks = [c for c in kids if self.opname(c) == "DataflowBlock"]
                exit_ = [c for c in kids if self.opname(c) == "ExitBlock"][0]
                self.match_children(blocks, reg.children, "CFG")
                if len(reg.targets) != 1:
                    self.V("ports", "region-targets:CFG", {"got": len(reg.targets)})
                else:
                    self.port_name[("in", exit_.idx, 0)] = reg.targets[0]
                self.ctx.checked("cfg-source")
                if len(reg.sources) != 1:
                    self.V("ports", "region-sources:CFG", {"got": len(reg.sources)})
                else:
                    self.cfg_sources = getattr(self, "cfg_sources", [])
                    self.cfg_sources.append((kids[0].idx, reg.sources[0]))
        elif mn.regions:
            self.V("region-shape", f"unexpected-regions:{op}", {"got": len(mn.regions)})
        # symbols and applications
        if op in ("FuncDefn", "FuncDecl"):
            self.symbols[n.idx] = mn.operation.symbol.name
            self.symbol_names.append(mn.operation.symbol.name)
        if op in ("Call", "LoadFunction") and isinstance(mn.operation, model.CustomOp):
            term = mn.operation.operation
            f = term.args[-1] if isinstance(term, model.Apply) and term.args else None
            self.applied.append((n.idx, f.symbol if isinstance(f, model.Apply) else repr(f)))
        if op == "LoadConstant" and isinstance(mn.operation, model.CustomOp):
            self.ctx.checked("const-inlined")
            term = mn.operation.operation
            srcs = [q for q in h.linked_ports(n.inp(0))]
            ok = False
            if srcs and isinstance(term, model.Apply) and term.symbol == "core.load_const" and len(term.args) == 2:
                try:
                    ok = term.args[1] == h[srcs[0].node].op.val.to_model()
                except Exception:  # noqa: BLE001
                    ok = False
            if not ok:
                self.V("region-shape", "const-not-inlined", {"node": n.idx})

    def check_links(self):
        """Two ports carry the same name exactly when an edge of the HUGR joins them."""
        self.ctx.checked("links")
        # connected components of value / control-flow links over the ports that were listed
        parent = {}

        def find(x):
            parent.setdefault(x, x)
            while parent[x] != x:
                parent[x] = parent[parent[x]]
                x = parent[x]
            return x

        listed = set(self.port_name)
        for a, b in self.h.links():
            pa, pb = ("out", a.node.idx, a.offset), ("in", b.node.idx, b.offset)
            if pa in listed or pb in listed:
                if pa in listed and pb in listed:
                    parent[find(pa)] = find(pb)
                else:
                    lone = pa if pa in listed else pb
                    other = pb if pa in listed else pa
                    kind = R.port_kind(self.sem[other[1]], other[0], other[2]) if other[2] >= 0 else ("order",)
                    if kind and kind[0] in ("value", "cf"):
                        self.V("links", "edge-endpoint-not-listed", {"listed": list(lone), "unlisted": list(other)})
        by_name = {}
        for p, name in self.port_name.items():
            by_name.setdefault(name, []).append(p)
        comp = {}
        for p in listed:
            comp.setdefault(find(p), []).append(p)
        # same component -> same name
        for c in comp.values():
            names = {self.port_name[p] for p in c}
            if len(names) > 1:
                self.V("links", "joined-ports-different-names", {"ports": sorted(map(list, c))[:6], "names": sorted(names)})
        # same name -> same component
        for name, ps in by_name.items():
            if len({find(p) for p in ps}) > 1:
                self.V("links", "unjoined-ports-share-name", {"name": name, "ports": sorted(map(list, ps))[:6]})
        # CFG region source is the entry block's control input
        for (entry, name) in getattr(self, "cfg_sources", []):
            want = self.port_name.get(("in", entry, 0))
            if want is not None and name != want:
                self.V("cfg-source", "not-entry-input", {"entry": entry, "source": name, "entry_input": want})

    def check_symbols(self):
        self.ctx.checked("symbol")
        if len(set(self.symbol_names)) != len(self.symbol_names):
            self.V("symbol", "duplicate-symbol", {"names": sorted(self.symbol_names)})
        for (idx, name) in self.applied:
            callee = None
            n = next(x for x in self.live if x.idx == idx)
            sem = self.sem[idx]
            off = len(sem["vin"] or [])
            srcs = list(self.h.linked_ports(n.inp(off)))
            if srcs:
                callee = self.symbols.get(srcs[0].node.idx)
            if name not in self.symbol_names:
                self.V("symbol", "callee-not-declared", {"node": idx, "applied": name, "declared": sorted(self.symbol_names)[:8]})
            elif callee is not None and name != callee:
                self.V("symbol", "wrong-callee", {"node": idx, "applied": name, "expected": callee})
