"""Reference model: a plain sequential hierarchical port multigraph.

nodes: idx -> RNode(op_tag, parent, children[], metadata, req_outs); links: list of
(src_idx, src_off, dst_idx, dst_off) with multiplicity.  Offset -1 is the order port.
"""

from __future__ import annotations

import copy
from collections import Counter


class RNode:
    __slots__ = ("op", "parent", "children", "metadata", "req_outs")

    def __init__(self, op, parent, metadata=None, req_outs=None):
        self.op = op  # opaque token (the very op object handed to the real graph)
        self.parent = parent
        self.children: list[int] = []
        self.metadata = copy.deepcopy(metadata) if metadata else {}
        self.req_outs = req_outs


class RefGraph:
    def __init__(self, root_op):
        self.nodes: dict[int, RNode] = {0: RNode(root_op, None)}
        self.links: list[tuple[int, int, int, int]] = []
        self.dead: list[int] = []  # indices that are currently not live but were once
        self.root = 0

    # -- mutators ---------------------------------------------------------------
    def add_node(self, idx: int, op, parent: int, metadata=None, req_outs=None):
        assert idx not in self.nodes, f"model: index {idx} is live"
        assert parent in self.nodes
        self.nodes[idx] = RNode(op, parent, metadata, req_outs)
        self.nodes[parent].children.append(idx)
        if idx in self.dead:
            self.dead.remove(idx)

    def add_link(self, s, so, d, do):
        self.links.append((s, so, d, do))

    def add_order_link(self, s, d):
        if (s, -1, d, -1) not in self.links:
            self.links.append((s, -1, d, -1))
            return True
        return False

    def delete_link(self, s, so, d, do) -> bool:
        try:
            self.links.remove((s, so, d, do))
            return True
        except ValueError:
            return False

    def delete_node(self, idx):
        n = self.nodes.pop(idx)
        assert not n.children
        if n.parent is not None:
            self.nodes[n.parent].children.remove(idx)
        self.links = [l for l in self.links if l[0] != idx and l[2] != idx]
        self.dead.append(idx)
        return n

    def insert(self, other: "RefGraph", parent: int, mapping: dict[int, int]):
        """Insert `other` under `parent` using the index mapping chosen by the implementation."""
        for oi in sorted(other.nodes):  # parents first is not implied by index order: do it by depth
            pass
        order = other.preorder()
        for oi in order:
            on = other.nodes[oi]
            p = parent if on.parent is None else mapping[on.parent]
            self.add_node(mapping[oi], on.op, p, on.metadata, None)
        # child order must mirror other's child order
        for oi in order:
            self.nodes[mapping[oi]].children = [mapping[c] for c in other.nodes[oi].children]
        for (s, so, d, do) in other.links:
            self.links.append((mapping[s], so, mapping[d], do))

    # -- observers --------------------------------------------------------------
    def preorder(self) -> list[int]:
        out = []
        stack = [self.root]
        while stack:
            n = stack.pop()
            out.append(n)
            stack.extend(reversed(self.nodes[n].children))
        return out

    def is_leaf(self, idx):
        return not self.nodes[idx].children

    def linked_from_out(self, s, so):
        return Counter((d, do) for (a, b, d, do) in self.links if a == s and b == so)

    def linked_from_in(self, d, do):
        return Counter((s, so) for (s, so, a, b) in self.links if a == d and b == do)

    def max_out(self, idx):
        return max([so for (s, so, _, _) in self.links if s == idx] + [-1])

    def max_in(self, idx):
        return max([do for (_, _, d, do) in self.links if d == idx] + [-1])

    def link_counter(self):
        return Counter(self.links)

    def state_digest_obj(self):
        return [sorted((i, n.parent, tuple(n.children)) for i, n in self.nodes.items()), sorted(self.links)]

    def snapshot(self):
        g = RefGraph.__new__(RefGraph)
        g.nodes = {}
        for i, n in self.nodes.items():
            m = RNode(n.op, n.parent, n.metadata, n.req_outs)
            m.children = list(n.children)
            g.nodes[i] = m
        g.links = list(self.links)
        g.dead = list(self.dead)
        g.root = self.root
        return g
