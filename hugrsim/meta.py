"""Static per-property configuration used by the driver (stdlib only; does not import hugr)."""

REAL_COMMON = ["hugr-py imported from the working tree ($HUGR_SRC, default /repo/hugr-py/src)",
               "pydantic", "CPython dict/set ordering under the batch's PYTHONHASHSEED"]
STUB_COMMON = ["Rust validator / reader (replaced by reference oracles written from the Rust sources)",
               "hugr._hugr native module (absent offline; nothing needing it is called)"]

# batches x runs per tier.  budget_s is a wall cap per batch (a truncated batch is reported, and
# the check is inconclusive (exit 2) if fewer than floor_runs runs completed overall).
PROPS = {
    "C18": {
        "engine": "D", "level": "exploration",
        "tiers": {"quick": {"batches": 16, "runs": 1500, "budget_s": 40, "floor_runs": 4000},
                  "thorough": {"batches": 32, "runs": 20000, "budget_s": 900, "floor_runs": 300000}},
        "rule": "one run = one seeded history of BiMap operations (construct / insert_left / insert_right / "
                "__setitem__ / delete_left / delete_right / __delitem__ / lookups) over a 7-symbol alphabet incl. "
                "0, '' and () (one run in ten: a 100-symbol alphabet and 100-440 steps, maps of 50+ pairs; one in five: two maps "
                "built from one dict or one from the other), compared step by step with a two-dict reference model; a run is non-trivial when it "
                "has >= 2 state-changing steps; distinct = distinct event-log digests",
        "real": ["hugr.utils.BiMap"], "stub": [],
        "technique": "seeded operation histories against a sequential reference model (two dicts), state compared after every step; choice-trace minimisation; fresh-interpreter replay",
        "level_text": "Seeded exploration of BiMap operation histories (all six mutators plus construction, over an alphabet with falsy symbols so that key/value collisions are frequent) with the complete public observation compared to a textbook two-dict model after every step. Histories, not single calls, are what the property quantifies over; exploration is the level a sampled history space supports.",
        "level_note": "Trusted: the 20-line reference model in props/c18.py. Alphabet excludes None and bools (None is the implementation's 'absent' sentinel for get_left/get_right; True == 1 as a dict key).",
    },
    "C01": {
        "engine": "B", "level": "exploration",
        "tiers": {"quick": {"batches": 16, "runs": 250, "budget_s": 50, "floor_runs": 800},
                  "thorough": {"batches": 32, "runs": 5000, "budget_s": 900, "floor_runs": 60000}},
        "rule": "one run = one well-formed builder program on one shared Hugr: root drawn among Module / Dfg / Function / Cfg / Conditional / TailLoop / TrackedDfg; every open builder (function body, nested DFG, case, basic block, loop body) and every container controller (module, conditional, CFG) is an actor and the seeded scheduler picks which one makes the next public call (add_op / add / extend / load / call / load_function / add_nested / add_cfg / add_conditional / add_if / add_else / add_tail_loop / define_function / declare_function / add_state_order / add_entry / add_block / add_successor / branch / branch_exit / set_outputs ...); type-directed generation over copyable, linear, sum, tuple, function, extension and variable types with Ext and Dom wires, multi-output ops partially used, constants in outer scopes, recursion, polymorphic and row-polymorphic callees, detached builders attached with insert_*, TrackedDfg commands by index, graph-level scratch nodes deleted later (index reuse inside builder programs), arguments linked after call(); the serialised result (at the end and at every quiescent point) is judged by a reference validator written from validate.rs; non-trivial = >= 3 builder calls; distinct = distinct event-log digests",
        "real": ["all builders (Dfg, Function, Module, Cfg/Block, Conditional/Case/If/Else, TailLoop, TrackedDfg), ops, tys, val, graph store, JSON serialiser"],
        "stub": ["hugr validate (Rust) -> oracles/refvalidate.py"],
        "expected_probes": ["ext_edge", "dom_edge", "multi_output_op", "const_in_outer_scope", "const_under_cfg", "const_loaded_again",
                            "recursive_call", "poly_call", "row_var_arity_change", "poly_misc_params", "state_order", "if_else",
                            "tail_loop", "cfg", "add_successor", "call_indirect", "load_function", "general_sum_with_empty_rows",
                            "insert_detached:dfg", "insert_detached:cfg", "insert_detached:conditional", "insert_detached:tailloop",
                            "tracked_index_command", "quiescent_point_validated", "discharge_conditional", "large_program", "op_added_after_outputs_set_nonlocal_input", "op_with_9_ports_or_more", "equal_but_not_identical_handles"],
        "technique": "seeded interleaving of open builder actors on one shared Hugr (type-directed well-formed programs), output checked by a reference validator written from validate.rs",
        "level_text": "C01 quantifies over builder programs including the interleaving of calls on several open builders, which is where the builders' port bookkeeping and order-edge insertion depend on history. The check samples that space with a seeded scheduler over builder actors and judges each product with an independent implementation of the validity rules the statement lists (parent/child pairs, I/O positions and rows, port counts, edge kinds and types, acyclicity, order edges for Ext edges, dominance, no value edge into a function, constants inhabiting their type).", "level_note": "Trusted: oracles/refsem.py + refvalidate.py (written from hugr-core validate.rs / ops/validate.rs; clauses named in DESIGN Appendix B). Not checked: extension-delta inference, TypeArg-vs-TypeParam checks, Call instantiation == substitution, opaque-op resolution (extension ops are taken at their written signature). Also checked although the Rust validator does not: one edge per incoming value / static port (specification/hugr.md). Program-space bounds: Dom wires only in a block's own calls (a nested builder refuses them by design); generated types are drawn from Bool / Qubit / int<w> / float64 / string / unit sums / tuples / options / eithers / general sums (incl. all-empty-row forms) / function types / type and row variables / array / list.",
    },
    "C02": {
        "engine": "A+B+C", "level": "exploration",
        "tiers": {"quick": {"batches": 16, "runs": 120, "budget_s": 70, "floor_runs": 800},
                  "thorough": {"batches": 32, "runs": 2500, "budget_s": 900, "floor_runs": 30000}},
        "rule": "one run = a HUGR with a history: (i) an engine-B builder product, (ii) an engine-A client history (add/delete/insert, metadata from everything JSON carries, ops with type parameters, extension deltas, descriptions, type args), or (iii) an engine-B product mutated by engine-A clients (delete leaves, reuse freed indices, add/delete links, insert); then to_json -> load_json in the same process or, in a quarter of the runs, in a reader node started as a separate interpreter with another PYTHONHASHSEED; clauses: load-succeeds, doc-fixpoint, op-encoding, hierarchy with child order, metadata, link multiset incl. order links; non-trivial = >= 3 calls; distinct = distinct event-log digests", "real": ["Hugr.to_json / load_json, _serialization models (pydantic), ops/tys/val codecs, graph store, builders", "the reader node is a real second interpreter (fresh module state, different PYTHONHASHSEED)"], "stub": ["the storage between writer and reader is a pipe owned by the simulator (no storage faults have an oracle for this property)"], "expected_probes": ["serialised_after_deletion", "serialised_after_index_reuse", "non_contiguous_indices", "index_order_not_hierarchy_consistent", "restart_read"], "technique": "seeded build + mutation histories, then a write / restart / read cycle: the reader is a fresh interpreter with a different hash seed and only the document crosses; observation-equality oracle clause by clause", "level_text": "The HUGRs the statement quantifies over are reachable only through histories (deletion, index reuse, interleaved builders), and the second party of a round trip is another process: the check generates the histories with engines A and B and reads the document back both in-process and in a restarted interpreter with a different hash seed, comparing the loaded HUGR's public observation and re-serialised document with the original's.", "level_note": "Trusted: the correspondence rule in engines/c_persist.py (root to root, k-th child to k-th child; where increasing index is hierarchy-consistent it must be the order-preserving renumbering the statement licenses). Order links of the original (offset -1) are compared at the order-port offset refsem predicts. NaN/inf metadata excluded (not JSON). Engine-A order links only on ops that have an order port.",
    },
    "C03": {
        "engine": "A+B+C", "level": "exploration",
        "tiers": {"quick": {"batches": 16, "runs": 50, "budget_s": 70, "floor_runs": 400},
                  "thorough": {"batches": 32, "runs": 700, "budget_s": 900, "floor_runs": 8000}},
        "rule": "same workloads as C02; every emitted SerialHugr document (and Package document, and the document a restarted reader node re-emits) is validated against specification/schema/hugr_schema_strict_live.json, checked for index sanity, and - for HUGRs whose links attach only to ports their operations have (all builder products; engine-A histories in in-range mode) - every in-memory link must be addressed in the document at the offset refsem predicts from the serialised op (value port = signature position, static port after the value inputs, order port after those), independently of how many ports are connected; non-trivial = >= 3 calls; distinct = distinct event-log digests", "real": ["Hugr / Package serialisation, _serialization models", "jsonschema validation against the published strict schema file", "reader node (separate interpreter) for re-emitted documents"], "stub": ["Rust reader (serialize.rs) -> oracles/wire.py + refsem.py"], "expected_probes": ["serialised_after_deletion", "serialised_after_index_reuse", "index_order_not_hierarchy_consistent", "restart_read"], "technique": "seeded build + mutation histories (deletion, index reuse, partially connected multi-output nodes with order edges), documents judged by the published strict JSON schema + index sanity + a reader-side port-addressing model; a restarted reader node re-emits and is judged too", "level_text": "What can break the wire format is history: deletions and index reuse (index sanity), and the order in which builders happened to link ports (order-edge offsets). The check reuses the C02 workloads and judges every emitted document with the published strict schema and with an independent model of the reader's addressing contract (serialize.rs), never with hugr-py's own port counters.", "level_note": "Trusted: jsonschema 4.26 (offline wheelhouse, installed into /verif/.deps), the published strict schema file, oracles/refsem.py for port addressing, oracles/wire.py. Extension documents are validated in C10's check.",
    },
    "C04": {
        "engine": "A", "level": "exploration",
        "tiers": {"quick": {"batches": 16, "runs": 180, "budget_s": 70, "floor_runs": 1200},
                  "thorough": {"batches": 32, "runs": 2500, "budget_s": 900, "floor_runs": 30000}},
        "rule": "one run = 1-3 client actors sharing one Hugr (plus 0-2 auxiliary HUGRs with their own actor, used as "
                "insertion sources); the seeded scheduler picks which actor makes the next call among add_node / add_const / "
                "add_link / add_order_link / delete_link (existing, parallel, middle-of-fan-out, absent) / delete_node (leaf) / "
                "insert_hugr; after every call every query of the store is compared with a sequential port-multigraph model; "
                "non-trivial = >= 3 state-changing calls; distinct = distinct event-log digests",
        "real": ["hugr.hugr.base.Hugr graph store, hugr.utils.BiMap, node/port handles"], "stub": [],
        "expected_probes": ["freed_index_reused", "fanout_middle_deleted", "parallel_link_deleted", "deleted_node_had_order_links",
                            "deleted_node_had_multilinked_port", "insert_hugr", "insert_source_with_holes", "order_link_repeat",
                            "absent_link_delete", "fan_in", "fan_out", "large_store", "port_with_9_links_or_more", "port_offset_8_or_more"],
        "technique": "seeded interleaving of client actors on one shared graph, checked call by call against a sequential reference model (refinement), with choice-trace minimisation and fresh-interpreter replay",
        "level_text": "The canonical reference-model idiom: every mutation history is replayed on a plain port multigraph and every query (iteration, count, lookup of live and dead handles, parent, ordered children, links(), linked_ports from both ends and all offsets incl. the order port, per-port listings, order-link listings, has_link, port counts as lower bounds) is compared after every call. Histories with collisions (small offset range, locality, index reuse) are sampled; exploration is the level a sampled history space supports.",
        "level_note": "Trusted: oracles/refgraph.py. Calls are atomic (no yield point inside the library), so an interleaving is a total order of calls. num_incoming/num_outgoing are not compared (the statement does not list them). Insertion order inside linked_ports is not asserted. Only leaves are deleted.",
    },
    "C08": {
        "engine": "A+B", "level": "exploration",
        "tiers": {"quick": {"batches": 16, "runs": 500, "budget_s": 45, "floor_runs": 1500},
                  "thorough": {"batches": 32, "runs": 8000, "budget_s": 900, "floor_runs": 100000}},
        "rule": "one run = engine-A history on a target HUGR and 1-2 source HUGRs (each with its own actor, so sources have "
                "holes, reused indices, multi-linked ports, order links and metadata) with insert_hugr steps at scheduler-chosen "
                "points, or an engine-B builder program using insert_nested / insert_cfg / insert_conditional / insert_tail_loop; "
                "after each insertion the returned mapping is checked to be an isomorphism (ops, hierarchy with child order, "
                "metadata, output port counts, every link with offsets and multiplicity), root placement, frame condition on the "
                "target and source-unmodified; non-trivial = >= 3 calls and >= 1 insertion; distinct = distinct event-log digests",
        "real": ["Hugr.insert_hugr and the graph store; builders' insert_* wrappers (engine-B leg)"], "stub": [],
        "expected_probes": ["insert_source_with_holes", "insert_into_freed_indices", "inserted_order_links",
                            "inserted_parallel_links", "inserted_nodes_with_metadata", "non_monotone_mapping", "builder_insert:dfg",
                            "builder_insert:cfg", "builder_insert:conditional", "builder_insert:tailloop"],
        "technique": "seeded interleaved mutation histories on target and source graphs with insertion steps, isomorphism + frame-condition oracle on public observations before/after; choice-trace minimisation; fresh-interpreter replay",
        "level_text": "Insertion is checked on graphs that have a history, because that is where its defect classes live (index holes in the source, freed indices reused in the target so the mapping is not monotone, ports with several links, order links, metadata). The oracle observes both HUGRs through public queries before and after and checks isomorphism, root placement, frame and source-unmodified independently of the implementation's own mapping logic.",
        "level_note": "Trusted: oracles/iso.py. Later aliasing of metadata dicts between source and target is not asserted (the statement is about the moment of insertion). Operations are compared by identity or dataclass equality.",
    },
    "C09": {
        "engine": "C", "level": "fault_enumeration",
        "tiers": {"quick": {"batches": 16, "runs": 40, "budget_s": 50, "floor_runs": 300},
                  "thorough": {"batches": 16, "runs": 1500, "budget_s": 900, "floor_runs": 10000}},
        "exhaustive_key": ["header_pairs_checked", {"quick": -1, "thorough": 65536}],
        "rule": "one run = one seeded package (0-4 engine-B modules, 0-3 engine-E extensions, non-ASCII names/metadata) x one "
                "configuration (JSON, zstd in {None,0,1,3,19,22}, default config) through to_bytes/from_bytes (in process or "
                "via the reader node in another interpreter) and to_str/from_str; header bytes checked; storage faults with a "
                "stated oracle applied to the stored bytes of every run: all truncations to 0-9 bytes, all 64 single-bit flips of "
                "the magic, 4 random magics; the first 256 runs (by batch and run index, independent of the seed) each enumerate "
                "one format byte against flags values (all 256 in the thorough tier and for format 63; every 16th plus {1,64,65,255} "
                "in the quick tier) in front of a correct payload; seeded payload faults only feed probes; non-trivial = any run",
        "real": ["hugr.envelope, hugr.package, pyzstd, extension/package serialisation models", "reader node = second interpreter"],
        "stub": ["the disk: bytes between to_bytes and from_bytes are held and corrupted by the simulator (SimDisk role)",
                 "MODULE / MODULE_WITH_EXTS payload encoding needs the absent native module: not encodable offline; only their to_str rejection and header-level rejection on read are exercised"],
        "expected_probes": ["restart_read", "text_envelope", "non_ascii_in_text_envelope", "package_of_many_modules"],
        "technique": "write / corrupt / restart / read: seeded packages and configurations for the round trip; the header fault space (format x flags, truncations, magic bit flips) enumerated completely in the thorough tier in front of valid payloads",
        "level_text": "The statement itself enumerates the fault space (all 2^16 format/flag pairs, all truncations below a header, wrong magic), so the fault leg is an enumeration, complete in the thorough tier (exhaustive: true is set from the measured pair count); the round-trip leg is seeded over packages and configurations and crosses a real process boundary in a quarter of the runs.",
        "level_note": "Trusted: docs_of (module/extension documents as JSON values) as the equality of packages; header constants from the statement. For format byte 63 any flags value must decode (compressed iff bit 0): the statement constrains the written flags, not the accepted ones. Payload-level corruption has no stated oracle and is reported as probes.",
    },
    "C10": {
        "engine": "C+E", "level": "exploration",
        "tiers": {"quick": {"batches": 16, "runs": 300, "budget_s": 50, "floor_runs": 1000},
                  "thorough": {"batches": 32, "runs": 5000, "budget_s": 900, "floor_runs": 60000}},
        "rule": "one run = a registry-building history on 1-3 extensions through the public API (Extension(...), add_type_def with "
                "explicit / from-params bounds and any index list, add_op_def with mono / polymorphic / plain-FunctionType / binary "
                "signatures and requirement lists, add_extension_value, register_op, re-adding under an existing name, adding one "
                "definition object to a second extension); owner clause after every step; then to_json -> (same process | reader "
                "node in another interpreter with another PYTHONHASHSEED) -> from_json -> field-by-field comparison and re-serialised "
                "document == stored document; each emitted document is validated against the published Extension schema. The "
                "std-lib half (bundled JSON byte-identical to specification/std_extensions, each loads, typed helpers denote existing "
                "definitions with matching parameters) is a static boot-time comparison evaluated once per batch. non-trivial = >= 3 "
                "API calls; distinct = distinct event-log digests",
        "real": ["hugr.ext, hugr._serialization.extension, hugr.std loaders via pkgutil.get_data, set iteration order under the interpreter's hash seed",
                 "the reader node is a real second interpreter with a different PYTHONHASHSEED"],
        "stub": ["storage between writer and reader is a pipe owned by the simulator"],
        "expected_probes": ["ext_with_two_or_more_reqs", "signature_with_two_or_more_reqs", "restart_read", "opdef_added_to_second_extension", "misc_nested_6_levels_or_more"],
        "technique": "seeded registry-building histories, write / restart / read with the reader under a different hash seed (requirement sets are emitted in set-iteration order: the one real nondeterminism in the code base), field-wise and document-fixpoint oracle; static std-lib comparison at boot",
        "level_text": "The round-trip half is simulated: histories build the extensions, and the second party reads the document in a different interpreter whose hash seed differs, which is exactly where requirement sets serialised in set-iteration order diverge. The std-lib half is a static comparison that rides on the simulation's boot and is labelled as such.",
        "level_note": "Trusted: the comparison summary (reader_main.ext_summary), oracles/refsem.cpoly for signatures (requirement sets as sets), the published Extension schema. Lowering functions are excluded (as in the statement).",
    },
    "C11": {
        "engine": "E", "level": "exploration",
        "tiers": {"quick": {"batches": 16, "runs": 250, "budget_s": 50, "floor_runs": 800},
                  "thorough": {"batches": 32, "runs": 3000, "budget_s": 900, "floor_runs": 40000}},
        "rule": "one run = either (a) an engine-B product (std ops and types, collections array/list nested in sums, function "
                "types and type arguments, verif.q ops, ops/types of an extension no early registry knows) stored as a document, "
                "loaded back (all ops and types opaque) and driven through a session of resolve_extensions steps against an "
                "increasing chain of registry snapshots (empty / partial / complete) with each step delivered 1-3 times, or (b) a "
                "nested type expression stored and loaded opaque and resolved step by step the same way; after every step: "
                "exactly-when at every depth, untouched, idempotent, wire-invariant (description excepted), sig-invariant, "
                "model-invariant; non-trivial = >= 2 resolve steps; distinct = distinct event-log digests",
        "real": ["Hugr.resolve_extensions, ops.Custom.resolve, tys.*.resolve, ExtensionRegistry, to_json / to_model of resolved objects"],
        "stub": ["the store holding the document is a string owned by the simulator"],
        "expected_probes": ["op_resolved", "type_resolved:top-level", "type_resolved:inside-sum", "type_resolved:inside-function-type",
                            "type_resolved:type-argument", "type_resolved:argument-of-opaque-type", "unregistered_extension_op", "polymorphic_function_type_resolved", "extension_registered_before_its_definitions", "opaque_type_under_many_sums"],
        "technique": "sessions of resolve steps on loaded HUGRs / type expressions under fault injection at the request level: duplicate delivery of the same resolve, partial registries that are later completed; invariants checked after every step",
        "level_text": "The statement's quantifier includes the registry's state of knowledge (empty, partial, complete) and 'resolving twice equals resolving once'; the check turns these into a session history: knowledge arrives in steps, steps are delivered more than once, and after every delivery the HUGR (or type) is compared with the stored document, the exported model and its signatures, with resolvedness checked at every depth.",
        "level_note": "Trusted: the resolvedness walker in props/c11.py and the registry table. For HUGR-level steps only opaque operations are in scope (with the types in their signature and arguments), as the statement says; opaque types inside already-resolved or core operations are in scope only in the type-level leg.",
    },
    "C12": {
        "engine": "B", "level": "exploration",
        "tiers": {"quick": {"batches": 16, "runs": 200, "budget_s": 50, "floor_runs": 800},
                  "thorough": {"batches": 32, "runs": 3000, "budget_s": 900, "floor_runs": 40000}},
        "rule": "one run = a Module-rooted engine-B builder program (interleaved builders; functions called more than once, "
                "constants loaded more than once and from outer scopes, order edges, nested control flow, polymorphic callees) that "
                "the C01 reference validator accepts; Hugr.to_model() is walked as dataclasses and compared with the HUGR: regions "
                "mirror the hierarchy, per-node value-port counts (refsem), link-name partition == connected components of the "
                "HUGR's value/control links, CFG region source, applied symbols declared, order hints, metadata; the attribute table "
                "of the model classes vs python.rs is checked once per batch (static); non-trivial = >= 3 builder calls",
        "real": ["hugr.model.export.ModelExport, hugr.model dataclasses, tys/val to_model"], 
        "stub": ["hugr._hugr native printer/parser (absent offline): model objects are never str()/bytes()-ed", "Rust import.rs (the reader of the model) -> oracles/modelcheck.py"],
        "expected_probes": ["order_edge_between_siblings", "function_called_twice", "const_loaded_again", "cfg", "conditional", "poly_call", "definition_shared_by_two_extensions", "function_name_not_an_identifier", "module_level_node_annotated", "state_order_into_output_node"],
        "technique": "model export of seeded interleaved-builder products (the exporter reads history-dependent port counters), structural oracle over the exported dataclasses",
        "level_text": "The exporter takes port lists from counters whose value depends on the order in which builders linked ports, so the same abstract HUGR reached by two schedules can export differently; the check therefore exports engine-B products (scheduler-chosen interleavings) and compares the exported module with the HUGR clause by clause.",
        "level_note": "Trusted: oracles/modelcheck.py, refsem value-port counts. Only HUGRs the C01 oracle accepts are exported (others are discards so that one defect is not reported twice). The attribute-table clause is a static comparison riding on the simulation's boot.",
    },
    "C13": {
        "engine": "B", "level": "exploration",
        "tiers": {"quick": {"batches": 16, "runs": 400, "budget_s": 50, "floor_runs": 1500},
                  "thorough": {"batches": 32, "runs": 6000, "budget_s": 900, "floor_runs": 80000}},
        "rule": "one run = a well-formed engine-B builder program (interleaved open builders) into which exactly one faulty "
                "request of a drawn kind (15 kinds, see fault_kinds_fired) is injected at a drawn step of a scheduler-chosen actor "
                "at any depth; the call must raise, with the documented exception class; the run stops at the fault. Runs in which "
                "the drawn fault never became applicable are discards. non-trivial = >= 2 calls incl. the fault; distinct = "
                "distinct event-log digests",
        "real": ["all builders, ops._CallOrLoad, exceptions"], "stub": [],
        "discard_ceiling": 0.6,
        "technique": "fault injection: one inconsistent client request injected at a seeded point of a seeded interleaving of builder actors; fail-stop oracle on the exception class",
        "level_text": "The faults the statement names are client requests, so the fault model is request-level: a seeded well-formed program supplies the state (open builders at several depths, established conditional outputs, established CFG exit type, declared function outputs, tracked wires) and the scheduler picks where exactly one inconsistent call lands. The oracle is the statement's: the call raises, and with the documented class where one is documented.",
        "level_note": "Excluded as ambiguous and listed in evidence: negative case indices (Python indexing vs 'out of range'); a wire into a block from inside another block of the same CFG (dominance is documented as deferred to validation). Nothing is asserted about the builder after the fault.",
        "assumptions": ["excluded_inputs: add_case(negative index); Dom-invalid wire between blocks of one CFG"],
    },
    "C15": {
        "engine": "D", "level": "exploration",
        "tiers": {"quick": {"batches": 16, "runs": 2500, "budget_s": 45, "floor_runs": 3000},
                  "thorough": {"batches": 32, "runs": 30000, "budget_s": 900, "floor_runs": 300000}},
        "rule": "one run = one seeded sequence of track_wire / track_wires / track_inputs / untrack_wire / add / extend / "
                "tracked_wire / set_indexed_outputs / set_tracked_outputs over a circuit of 0-4 qubit/bool inputs with mixed "
                "integer and wire arguments and optional per-node metadata, executed in lock-step on a TrackedDfg and on a "
                "plain Dfg whose integer arguments are resolved by an index model; compared after every step (tracked list, "
                "nodes, links) and after close (outputs, JSON); non-trivial = >= 3 steps; distinct = distinct event-log digests",
        "real": ["hugr.build.tracked_dfg.TrackedDfg, hugr.build.dfg.Dfg, graph store"], "stub": [],
        "expected_probes": ["rebind", "untrack", "untracked_index_used", "index_used_twice_in_step", "large_circuit", "command_object_added_again", "annotated_after_the_fact"],
        "technique": "lock-step refinement of two builders under one seeded step sequence, with an index model translating integer arguments; faulty requests (untracked indices) are injected and must raise IndexError without changing anything; the run then continues",
        "level_text": "The statement is an equivalence between two ways of driving a builder over all step sequences; the check runs both in lock-step under one seeded history and compares the tracked-wire list with an index model after every step and the two HUGRs node for node and link for link. Untracked indices are injected as faulty requests, must raise IndexError, and must leave both the tracked list and the HUGR untouched.",
        "level_note": "Trusted: the index model in props/c15.py. Integer arguments are placed only at positions below the operation's output count; negative indices are not generated (Python list semantics vs 'untracked' is ambiguous). A refused command (untracked index) changes nothing on the tree as it stands, so after the IndexError the run continues (fault, then workload): the earlier commands of the same extend() are applied to the plain builder and both builders must still agree.",
    },
    "C16": {
        "engine": "A+B", "level": "exploration",
        "tiers": {"quick": {"batches": 16, "runs": 300, "budget_s": 50, "floor_runs": 1000},
                  "thorough": {"batches": 32, "runs": 4000, "budget_s": 900, "floor_runs": 50000}},
        "rule": "one run = an engine-B builder program (handles returned by add_op / add / extend / call / load and by container "
                "builders at the moment their outputs become known: nested DFG, conditional, tail loop, CFG), or an engine-A "
                "history (add_node with explicit / without count, re-issued child handles), or direct add_node(num_outs=n) for "
                "n in 0..8; every handle obtained is probed: iteration, outputs(), integer indices in [-n-2, n+2], slices with "
                "start/stop in {None} u [-n-3, n+3] and step in {None,1,2,3} (all of them for n <= 6 in the thorough tier), "
                "node-as-wire, port equality/hash; non-trivial = >= 3 builder/graph calls; distinct = distinct event-log digests",
        "real": ["hugr.hugr.node_port (Node, ports, index normalisation), handle re-issue in the graph store, builders"], "stub": [],
        "expected_probes": ["handle:add_op", "handle:call", "handle:load", "handle:nested-dfg-closed", "handle:conditional-closed",
                            "handle:tail-loop-closed", "handle:cfg-closed", "graph_handle_known", "graph_handle_unknown",
                            "handle:insert_dfg", "handle:insert_cfg", "handle:insert_conditional", "handle:insert_tailloop", "container_closed_after_32_or_more_later_siblings", "handle_with_many_outputs", "conditional_node_read_before_outputs_set"],
        "technique": "handles harvested from seeded builder/graph histories (the count is a temporal fact: unknown until outputs are set), each probed against range(n) semantics; choice-trace minimisation",
        "level_text": "The index algebra alone would be a pure function; what makes the property a history property is that the count a handle knows is fixed when the handle is issued and the library re-issues handles as builders learn their outputs. The check therefore harvests every handle real histories produce (with the count the reference semantics gives) and probes each against Python's range(n) indexing/slicing rules as the statement words them.",
        "level_note": "Trusted: range(n) as the indexing reference; the generator's knowledge of each operation's output arity. load_function is not in the statement's list and its handle is not probed.",
    },
    "C19": {
        "engine": "D", "level": "exploration",
        "tiers": {"quick": {"batches": 16, "runs": 1500, "budget_s": 40, "floor_runs": 4000},
                  "thorough": {"batches": 32, "runs": 20000, "budget_s": 900, "floor_runs": 300000}},
        "rule": "one run = 1-4 shots, each a seeded log of append(tag, value) steps mixing whole-register and indexed "
                "writes to the same three registers (ints, bools, lists, optionally non-bits / nested lists / tags that "
                "do not fit the pattern); after every append to_register_bits is compared with a replay of the log into "
                "a register file, then the multi-shot queries under all four strictness flag pairs and the collation "
                "queries; non-trivial = >= 2 appends; distinct = distinct event-log digests",
        "real": ["hugr.qsystem.result.QsysShot / QsysResult"], "stub": ["pytket conversion (not installed; not exercised)"],
        "expected_probes": ["whole_after_indexed", "bool_bit", "strict_reject", "names_differ", "lengths_differ", "large_result", "one_list_object_in_several_entries"],
        "technique": "seeded write-log histories replayed into a reference register file (log-replay oracle) after every append; choice-trace minimisation; fresh-interpreter replay",
        "level_text": "A shot is an ordered log of writes and the statement defines the result as replaying that log; the check generates logs step by step and compares the real conversion with a reference register file after every append, then the multi-shot aggregations under every strictness flag pair. There are no faults, clocks or interleavings here (single actor) - what is simulated is ordering inside a history, the weakest fit of the technique among the claimed properties, stated as such in DESIGN.md.",
        "level_note": "Trusted: the reference replay in props/c19.py and the documented tag pattern. A non-bit value that a later entry with the same tag supersedes is ambiguous under the statement; both outcomes are accepted there (counted by a probe).",
    },
    "C20": {
        "engine": "B", "level": "exploration",
        "tiers": {"quick": {"batches": 16, "runs": 150, "budget_s": 50, "floor_runs": 600},
                  "thorough": {"batches": 32, "runs": 1200, "budget_s": 900, "floor_runs": 15000}},
        "rule": "one run = an engine-B builder program of any root kind (order, constant, function and control-flow edges, "
                "metadata, nested containers; interleaved builders) rendered with the default configuration and with a drawn "
                "palette x qualify_op_name; the DOT source is parsed and compared with the HUGR: one node statement per node with "
                "the display name, clusters nested as the hierarchy, one edge statement per link with node indices and offsets, "
                "value edges labelled with their type, port cells 0..k-1 covering every linked port, HUGR unchanged, structure "
                "independent of the configuration; non-trivial = >= 3 builder calls",
        "real": ["hugr.hugr.render.DotRenderer, graphviz.Digraph source generation"],
        "stub": ["the dot layout binary is not run in the quick tier (DOT source only)"],
        "expected_probes": ["order_edges_rendered", "cfg", "conditional", "call", "const_in_outer_scope", "long_lived_renderer_after_failed_preview", "op_with_9_ports_or_more"],
        "technique": "rendering of seeded interleaved-builder products (the renderer sizes port rows from history-dependent counters), DOT source parsed and compared structurally with the HUGR",
        "level_text": "As for C12, the renderer reads the graph store's connected-port counters, whose values depend on the order in which builders linked ports; the check renders engine-B products under scheduler-chosen interleavings and compares a parse of the DOT source with the HUGR's public observation.",
        "level_note": "Trusted: oracles/dot.py (parser for the subset of DOT graphviz emits). Cells: the statement says one cell per port while num_ports documents itself as a lower bound; any k between highest linked offset + 1 and the signature's count is accepted. Order edges are endpoints with offset -1; no cell is demanded for them.",
    },
}


def tier_cfg(prop: str, tier: str) -> dict:
    return PROPS[prop]["tiers"][tier]


ENGINES = [
    {"name": "A", "path": "hugrsim/engines/a_graph.py", "serves_properties": ["C04", "C08", "C16", "C02", "C03"],
     "kind_free_text": "graph-store client actors on one shared Hugr, mirrored on oracles/refgraph.py; seeded scheduler picks the next caller"},
    {"name": "B", "path": "hugrsim/engines/b_builders.py", "serves_properties": ["C01", "C13", "C16", "C02", "C03", "C08", "C12", "C20"],
     "kind_free_text": "interleaved open builders on one shared Hugr: each open builder / container controller is an actor, the seeded scheduler picks the next caller; type-directed well-formed programs; request-level fault injection for C13"},
    {"name": "C", "path": "hugrsim/engines/c_persist.py, hugrsim/restart.py, hugrsim/reader_main.py", "serves_properties": ["C02", "C03", "C09", "C10"],
     "kind_free_text": "write / restart / read: the reader is a separate interpreter with another PYTHONHASHSEED, only the stored bytes cross; storage faults on envelope bytes for C09"},
    {"name": "D", "path": "hugrsim/props/c18.py, c19.py, c15.py", "serves_properties": ["C18", "C19", "C15"],
     "kind_free_text": "small state machines: seeded operation histories vs sequential reference models"},
]

NOT_APPLICABLE = [
    {"property_id": "C05", "reason": "pure function of one immutable value (encode, decode, compare): no history, interleaving, fault or process boundary for a simulator to schedule; not yet claimed"},
    {"property_id": "C06", "reason": "pure function of one operation object (its signature and port kinds); nothing to schedule or fault"},
    {"property_id": "C07", "reason": "pure function of one type expression (its bound); nothing to schedule or fault"},
    {"property_id": "C14", "reason": "pure function of one value expression (its reported type); its document-level consequence is a clause of C01's oracle"},
    {"property_id": "C17", "reason": "decided by structural identity of two static artefacts (generated schema vs published files); no execution, schedule or fault involved"},
]
for _p in ("C01", "C02", "C03", "C04", "C08", "C09", "C10", "C11", "C12", "C13", "C15", "C16", "C19", "C20"):
    if _p not in PROPS:
        NOT_APPLICABLE.append({"property_id": _p, "reason": "applicable (see DESIGN.md section 6) but its check is not built yet; not claimed until it is"})
NOT_APPLICABLE.sort(key=lambda e: e["property_id"])
