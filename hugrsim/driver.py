"""Driver: starts batches in fresh interpreters, aggregates, confirms replays, writes evidence.

Stdlib only; never imports hugr.
"""

from __future__ import annotations

import argparse
import json
import os
import re
import shutil
import subprocess
import sys
import time

from .kernel import H
from .meta import PROPS, REAL_COMMON, STUB_COMMON

VERIF = os.path.dirname(os.path.dirname(os.path.abspath(__file__)))
PY = os.environ.get("VERIF_PYTHON", "/venv/bin/python")
HUGR_SRC = os.environ.get("HUGR_SRC", "/repo/hugr-py/src")
REPO_ROOT = os.environ.get("HUGR_REPO", "/repo")
# development only: a second copy of the checks can run next to the first one (other tree, other output directories)
OUTROOT = os.environ.get("VERIF_SCRATCH") or VERIF
DEPS = os.path.join(VERIF, ".deps")


def ensure_deps():
    """jsonschema from the offline wheelhouse (restores drop ignored files)."""
    if os.path.isdir(os.path.join(DEPS, "jsonschema")):
        return
    os.makedirs(DEPS, exist_ok=True)
    subprocess.run([PY, "-m", "pip", "install", "-q", "--no-index", "--find-links",
                    "/opt/veriftools/wheels", "--target", DEPS, "jsonschema"],
                   check=False, stdout=subprocess.DEVNULL, stderr=subprocess.DEVNULL, timeout=300)


def child_env(hashseed: int) -> dict:
    env = dict(os.environ)
    env["PYTHONHASHSEED"] = str(hashseed % (2 ** 32))
    env["PYTHONPATH"] = os.pathsep.join([VERIF, HUGR_SRC, DEPS])
    env["PYTHONPYCACHEPREFIX"] = os.path.join(OUTROOT, "out", "pycache")
    env["HUGR_SRC"] = HUGR_SRC
    env["HUGR_REPO"] = REPO_ROOT
    env["VERIF_DIR"] = VERIF
    env.pop("PYTHONDONTWRITEBYTECODE", None)
    return env


def load_known(prop: str):
    path = os.path.join(VERIF, "known_findings.json")
    if not os.path.exists(path):
        return {}
    with open(path) as f:
        kf = json.load(f)
    return {e["key"]: e for e in kf.get("findings", []) if e.get("property") == prop}


def slug(s: str) -> str:
    return re.sub(r"[^A-Za-z0-9_.-]+", "_", s)[:80]


def spawn_worker(argv, hashseed, log_path):
    logf = open(log_path, "w")
    return subprocess.Popen([PY, "-c", "import sys; from hugrsim.worker import main; sys.exit(main())", *argv],
                            env=child_env(hashseed), stdout=logf, stderr=subprocess.STDOUT, cwd=VERIF), logf


def run_replay_file(path: str, outdir: str) -> dict:
    with open(path) as f:
        rp = json.load(f)
    os.makedirs(outdir, exist_ok=True)
    out = os.path.join(outdir, f"replay-{slug(os.path.basename(path))}.json")
    if os.path.exists(out):
        os.remove(out)
    p, logf = spawn_worker(["--replay", path, "--out", out, "--budget-s", "120"],
                           int(rp["pythonhashseed"]), out + ".log")
    try:
        p.wait(timeout=3600)
    except subprocess.TimeoutExpired:
        p.kill()
    logf.close()
    if not os.path.exists(out):
        return {"fatal": "replay worker produced no output", "reproduced": False}
    with open(out) as f:
        return json.load(f)


def prefix_replay(rp: dict, v: dict, path: str, outdir: str, budget_s: float = 90.0) -> bool:
    """The run's own choices do not show the violation in a fresh interpreter: try the run *after the runs that came
    before it in its batch* (state kept across independent histories).  On success the replay file at `path` is
    rewritten as kind batch-prefix with a shrunk list of earlier runs, confirmed twice from fresh interpreters."""
    t0 = time.time()
    r = int(v["r"])

    def attempt(runs):
        q = dict(rp, kind="batch-prefix", runs=runs, choices=[], log_digest=None)
        tmp = path + ".try"
        with open(tmp, "w") as f:
            json.dump(q, f, default=repr)
        res = run_replay_file(tmp, outdir)
        os.remove(tmp)
        return res if res.get("reproduced") else None

    runs = list(range(r + 1))
    res = attempt(runs)
    if res is None:
        return False
    # shrink the list of earlier runs (delta debugging over fresh interpreters)
    n = 2
    while len(runs) > 1 and time.time() - t0 < budget_s:
        before = runs[:-1]
        size = max(1, len(before) // n)
        cut = False
        for i in range(0, len(before), size):
            cand = before[:i] + before[i + size:] + [r]
            got = attempt(cand)
            if got is not None:
                runs, res, cut = cand, got, True
                n = max(2, n - 1)
                break
            if time.time() - t0 > budget_s:
                break
        if not cut:
            if size == 1:
                break
            n = min(len(before), n * 2)
    again = attempt(runs)
    if again is None or again.get("log_digest") != res.get("log_digest"):
        return False
    rp.update(kind="batch-prefix", runs=runs, choices=[], log_digest=res["log_digest"], trace=res.get("trace"),
              note="the violation shows in the last listed run only after the earlier listed runs of the same batch "
                   "have happened in the same interpreter: state is kept across independent histories")
    v.update(choices=[], orig_len=r + 1, history_dependent=len(runs))
    with open(path, "w") as f:
        json.dump(rp, f, indent=1, default=repr)
    return True


def cmd_replay(path: str) -> int:
    ensure_deps()
    with open(path) as f:
        rp = json.load(f)
    res = run_replay_file(path, os.path.join(OUTROOT, "out", rp["property"]))
    if res.get("fatal"):
        print("HARNESS-ERROR", res["fatal"])
        print(res.get("traceback", ""))
        return 2
    print(f"replay {path}: expected {rp['key']}; observed keys {res['keys']}")
    for e in res["trace"][-60:]:
        print("  ", json.dumps(e, default=repr)[:300])
    for v in res["violations"]:
        print("  violation:", v["key"], json.dumps(v["detail"], default=repr)[:500])
    if res["reproduced"]:
        same = res["log_digest"] == res.get("expected_digest")
        print(f"VIOLATION property={rp['property']} replay={path}" + ("" if same else "  (event log digest differs)"))
        return 1
    print("not reproduced (property holds on this replay)")
    return 0


def cmd_check(prop: str, tier: str, seed: int, workers: int) -> int:
    t0 = time.time()
    meta = PROPS[prop]
    tc = dict(meta["tiers"][tier])
    scale = float(os.environ.get("VERIF_SCALE", "1"))
    tc["runs"] = max(1, int(tc["runs"] * scale))
    ensure_deps()
    outdir = os.path.join(OUTROOT, "out", prop)
    shutil.rmtree(outdir, ignore_errors=True)
    os.makedirs(outdir, exist_ok=True)
    os.makedirs(os.path.join(OUTROOT, "evidence"), exist_ok=True)
    os.makedirs(os.path.join(OUTROOT, "replays"), exist_ok=True)
    evpath = os.path.join(OUTROOT, "evidence", f"{prop}.json")
    known = load_known(prop)
    print(f"[{prop}] tier={tier} VERIF_SEED={seed} batches={tc['batches']} runs/batch={tc['runs']} "
          f"workers={workers} HUGR_SRC={HUGR_SRC}", flush=True)

    batches = []
    for b in range(tc["batches"]):
        bs = H(seed, prop, tier, b)
        batches.append({"b": b, "batch_seed": bs, "hashseed": (bs ^ int(os.environ.get("VERIF_HASHSEED_XOR", "0"))) % (2 ** 32),
                        "out": os.path.join(outdir, f"batch-{b}.json")})
    pending = list(batches)
    running = []
    min_budget = 25.0 if tier == "quick" else 60.0
    hard = tc["budget_s"] + min_budget + 90
    errors = []
    while pending or running:
        while pending and len(running) < workers:
            bt = pending.pop(0)
            argv = ["--prop", prop, "--tier", tier, "--batch-seed", str(bt["batch_seed"]),
                    "--batch-index", str(bt["b"]), "--batches", str(tc["batches"]),
                    "--runs", str(tc["runs"]), "--budget-s", str(tc["budget_s"]),
                    "--min-budget-s", str(min_budget), "--known", json.dumps(sorted(known)),
                    "--out", bt["out"]]
            if os.environ.get("VERIF_DIGESTS"):
                argv += ["--digests-out", bt["out"] + ".digests"]
            p, logf = spawn_worker(argv, bt["hashseed"], bt["out"] + ".log")
            bt.update(p=p, logf=logf, t=time.time())
            running.append(bt)
        time.sleep(0.05)
        for bt in list(running):
            rc = bt["p"].poll()
            if rc is None:
                if time.time() - bt["t"] > hard:
                    bt["p"].kill()
                    errors.append(f"batch {bt['b']} killed after {hard:.0f}s wall")
                    bt["logf"].close()
                    running.remove(bt)
                continue
            bt["logf"].close()
            running.remove(bt)
            if not os.path.exists(bt["out"]):
                tail = open(bt["out"] + ".log").read()[-1500:]
                errors.append(f"batch {bt['b']} exited rc={rc} without output: {tail}")

    # aggregate
    agg = {"runs": 0, "steps": 0, "events": 0, "distinct_scheds": 0, "distinct_states": 0}
    counters = {c: {} for c in ("probes", "faults", "clauses", "discards", "profiles")}
    nontriv = set()
    nontriv_count_fallback = 0
    samples, viols, known_met, hashseeds, truncated = [], {}, {}, [], 0
    extra = {}
    for bt in batches:
        if not os.path.exists(bt["out"]):
            continue
        with open(bt["out"]) as f:
            r = json.load(f)
        if r.get("fatal"):
            errors.append(f"batch {bt['b']} fatal: {r['fatal']}\n{r.get('traceback', '')}")
            continue
        for he in r["harness_errors"]:
            errors.append(f"batch {bt['b']} run_seed={he.get('run_seed')}: {he['error']}\n{he.get('traceback', '')}")
        for k in ("runs", "steps", "events", "distinct_scheds", "distinct_states"):
            agg[k] += r[k]
        for c in counters:
            for k, v in r[c].items():
                counters[c][k] = counters[c].get(k, 0) + v
        if r.get("distinct_nontrivial_digests") is not None:
            nontriv.update(r["distinct_nontrivial_digests"])
        else:
            nontriv_count_fallback += r["distinct_nontrivial"]
        if r["truncated"]:
            truncated += 1
        hashseeds.append(bt["hashseed"])
        if len(samples) < 3:
            samples.extend(r["samples"][:1])
        for v in r["violations"]:
            v = dict(v, batch_seed=bt["batch_seed"], pythonhashseed=bt["hashseed"])
            cur = viols.get(v["key"])
            if cur is None or (len(v["choices"]), v["choices"]) < (len(cur["choices"]), cur["choices"]):
                v["count"] = v["count"] + (cur["count"] if cur else 0)
                viols[v["key"]] = v
            else:
                cur["count"] += v["count"]
        for k, kn in r["known"].items():
            cur = known_met.setdefault(k, {"count": 0, "detail": kn["detail"]})
            cur["count"] += kn["count"]
        for k, v in (r.get("extra") or {}).items():
            if isinstance(v, (int, float)):
                extra[k] = extra.get(k, 0) + v
            else:
                extra.setdefault(k, v)

    # confirm each new violation by replaying its file in a fresh interpreter
    reported = []
    for key, v in sorted(viols.items()):
        path = os.path.join(OUTROOT, "replays", f"{prop}-{slug(v['clause'] + '-' + v['cls'])}-{v['run_seed']}.json")
        rp = {"property": prop, "key": key, "clause": v["clause"], "cls": v["cls"], "detail": v["detail"],
              "verif_seed": seed, "tier": tier, "batch_seed": v["batch_seed"],
              "pythonhashseed": v["pythonhashseed"], "run_seed": v["run_seed"], "engine": meta["engine"],
              "profile": v.get("profile"), "choices": v["choices"], "orig_choices_len": v["orig_len"],
              "minimise_execs": v["min_execs"], "log_digest": v["log_digest"], "cfg": v.get("cfg"), "trace": v["trace"]}
        if v.get("kind") == "batch-order":
            rp.update(kind="batch-order", batch_runs=v["batch_runs"], batch_seed=v["batch_seed"])
        with open(path, "w") as f:
            json.dump(rp, f, indent=1, default=repr)
        res = {} if v.get("prefix_only") else run_replay_file(path, outdir)
        if res.get("reproduced") and res.get("log_digest") == v["log_digest"]:
            reported.append((key, path, v))
        elif v.get("r") is not None and prefix_replay(rp, v, path, outdir):
            reported.append((key, path, v))
        else:
            errors.append(f"nondeterministic replay for {key}: fresh interpreter gave keys={res.get('keys')} "
                          f"digest={res.get('log_digest')} expected={v['log_digest']} {res.get('fatal', '')}")

    wall = time.time() - t0
    distinct_nontrivial = len(nontriv) + nontriv_count_fallback
    floor = int(tc.get("floor_runs", 1) * min(1.0, scale))
    inconclusive = agg["runs"] < floor
    if inconclusive:
        errors.append(f"only {agg['runs']} runs completed, below the tier floor {floor}")
    n_disc = sum(counters["discards"].values())
    ceiling = meta.get("discard_ceiling", 0.05)
    if agg["runs"] and n_disc / agg["runs"] > ceiling:
        errors.append(f"discard rate {n_disc}/{agg['runs']} above the recorded ceiling {ceiling}: inconclusive")
    zero_probes = [p for p in meta.get("expected_probes", []) if counters["probes"].get(p, 0) == 0]
    ev = {
        "property_id": prop, "tier": tier, "seed": seed, "level": meta["level"],
        "coverage": {
            "evaluations": agg["runs"],
            "distinct_nontrivial": distinct_nontrivial,
            "rule": meta["rule"],
            "samples": samples or [{"note": "no sample recorded"}],
            "runs": agg["runs"], "runs_per_hour": int(agg["runs"] / max(wall, 1e-3) * 3600),
            "logical_steps": agg["steps"], "events": agg["events"],
            "simulated_time": "none: the system under test has no clock; progress is counted in logical steps",
            "batches": len(batches), "workers": workers, "truncated_batches": truncated,
            "pythonhashseeds": hashseeds[:64],
            "fault_kinds_fired": counters["faults"],
            "probes": counters["probes"], "probes_at_zero": zero_probes,
            "clauses_evaluated": counters["clauses"],
            "discards": counters["discards"], "discard_rate": round(n_disc / max(1, agg["runs"]), 4), "discard_ceiling": ceiling,
            "profiles_distinct": len(counters["profiles"]),
            "distinct_interleavings": agg["distinct_scheds"],
            "distinct_model_states": agg["distinct_states"],
            "known_findings_met": {k: v["count"] for k, v in sorted(known_met.items())},
            "components_real": REAL_COMMON + meta.get("real", []),
            "components_stub": STUB_COMMON + meta.get("stub", []),
            "exhaustive": bool(meta.get("exhaustive_key") and extra.get(meta["exhaustive_key"][0]) == meta["exhaustive_key"][1][tier]),
            "extra": extra,
        },
        "assumptions": meta.get("assumptions", []) + [
            "reference models/oracles in /verif/hugrsim/oracles are the trusted base",
            "sampling, not enumeration: a clean batch is evidence, not proof"],
        "wall_s": round(wall, 2),
        "violations": len(reported),
    }
    with open(evpath, "w") as f:
        json.dump(ev, f, indent=1, default=repr)

    for k, kn in sorted(known_met.items()):
        desc = known[k].get("description", "")
        print(f"KNOWN-FINDING: property={prop} {k} ({kn['count']} runs) {desc}")
    for key, path, v in reported:
        if v.get("history_dependent"):
            print(f"  violation {key} in {v['count']} runs; shows only after earlier runs of its batch: "
                  f"{v['orig_len']} -> {v['history_dependent']} runs in the replay; detail={json.dumps(v['detail'], default=repr)[:400]}")
            print(f"VIOLATION property={prop} replay={path}")
            continue
        print(f"  violation {key} in {v['count']} runs; minimised {v['orig_len']} -> {len(v['choices'])} choices; "
              f"detail={json.dumps(v['detail'], default=repr)[:400]}")
        print(f"VIOLATION property={prop} replay={path}")
    print(f"[{prop}] runs={agg['runs']} steps={agg['steps']} distinct_nontrivial={distinct_nontrivial} "
          f"wall={wall:.1f}s runs/h={ev['coverage']['runs_per_hour']} violations={len(reported)} "
          f"known={len(known_met)} errors={len(errors)}", flush=True)
    if zero_probes:
        print(f"[{prop}] WARNING probes at zero: {zero_probes}")
    if errors:
        for e in errors[:10]:
            print("HARNESS-ERROR", e[:3000])
    if reported:
        return 1
    if errors:
        return 2
    return 0


def main(argv=None) -> int:
    ap = argparse.ArgumentParser(prog="check")
    ap.add_argument("prop", nargs="?")
    ap.add_argument("--tier", default=os.environ.get("VERIF_TIER") or "quick", choices=["quick", "thorough"])
    ap.add_argument("--seed", type=int, default=None)
    ap.add_argument("--replay", default="")
    ap.add_argument("--workers", type=int, default=int(os.environ.get("VERIF_WORKERS", "0")) or (os.cpu_count() or 4))
    a = ap.parse_args(argv)
    if a.replay:
        return cmd_replay(a.replay)
    if not a.prop or a.prop not in PROPS:
        print("usage: check <ID> [--tier quick|thorough] [--seed N] | --replay FILE; ids:", " ".join(sorted(PROPS)))
        return 2
    seed = a.seed if a.seed is not None else int(os.environ.get("VERIF_SEED") or 0)
    return cmd_check(a.prop, a.tier, seed, max(1, min(a.workers, 16)))
