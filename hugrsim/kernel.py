"""Kernel: choices, run context, violation records, minimisation.

One integer decides everything: a run is a pure function of (code, PYTHONHASHSEED, choice
sequence).  In generate mode the choice sequence comes from random.Random(run_seed) and is
recorded; in replay mode it comes from a list (k mod n, 0 when exhausted).
"""

from __future__ import annotations

import hashlib
import json
import random
import time
from collections import Counter


def H(*parts) -> int:
    """Stable 64-bit hash of the parts (never Python's hash())."""
    s = "\x1f".join(str(p) for p in parts).encode()
    return int.from_bytes(hashlib.sha256(s).digest()[:8], "big")


def canon(obj) -> str:
    return json.dumps(obj, sort_keys=True, separators=(",", ":"), default=repr, ensure_ascii=True)


def digest(obj) -> str:
    return hashlib.sha256(canon(obj).encode()).hexdigest()[:16]


class Stop(Exception):
    """Raised by an oracle to end a run early (after recording a violation)."""


class HarnessError(Exception):
    """A failure of the machinery itself (generator, model, oracle); never a violation."""


class Choices:
    """The only source of variation inside a run."""

    __slots__ = ("rng", "replay", "pos", "trace", "tags")

    def __init__(self, seed: int | None = None, replay: list[int] | None = None):
        self.rng = random.Random(seed) if replay is None else None
        self.replay = replay
        self.pos = 0
        self.trace: list[int] = []
        self.tags: list[str] = []

    def draw(self, n: int, tag: str = "") -> int:
        """Uniform in [0, n). 0 must be the simplest choice."""
        if n <= 1:
            return 0
        if self.replay is None:
            k = self.rng.randrange(n)
        else:
            if self.pos < len(self.replay):
                k = self.replay[self.pos] % n
            else:
                k = 0
            self.pos += 1
        self.trace.append(k)
        return k

    def coin(self, num: int, den: int, tag: str = "") -> bool:
        """True with probability num/den; False is the simple choice (value 0)."""
        if num <= 0:
            return False
        # value 0 -> False: map draw k in [0,den) to k >= den-num
        return self.draw(den, tag) >= den - num

    def weighted(self, weights: list[int], tag: str = "") -> int:
        """Index drawn proportionally to weights; index 0 is the simple choice."""
        tot = sum(weights)
        if tot <= 0:
            return 0
        k = self.draw(tot, tag)
        acc = 0
        for i, w in enumerate(weights):
            acc += w
            if k < acc:
                return i
        return len(weights) - 1

    def pick(self, seq, tag: str = ""):
        return seq[self.draw(len(seq), tag)]

    def subset(self, seq, num: int, den: int, tag: str = ""):
        return [x for x in seq if self.coin(num, den, tag)]


class Ctx:
    """Run context: choices, event log, probes, violations."""

    def __init__(self, prop: str, ch: Choices, cfg: dict | None = None):
        self.prop = prop
        self.ch = ch
        self.cfg = cfg or {}
        self.events: list = []
        self.probes: Counter = Counter()
        self.faults: Counter = Counter()
        self.clauses: Counter = Counter()
        self.violations: list[dict] = []
        self.steps = 0  # state-changing steps
        self.sched: list = []  # interleaving signature (actor ids)
        self.states: list[str] = []  # model-state digests (optional)
        self.discard: str | None = None
        self.profile: dict = {}
        self.sample = None

    # -- logging (never draws) ------------------------------------------------
    def ev(self, actor, op, args=None, outcome=None, fault=None):
        e = {"seq": len(self.events), "actor": actor, "op": op}
        if args is not None:
            e["args"] = args
        if fault is not None:
            e["fault"] = fault
        if outcome is not None:
            e["outcome"] = outcome
        self.events.append(e)
        self.sched.append(actor)
        return e

    def probe(self, name: str, n: int = 1):
        self.probes[name] += n

    def fault(self, name: str, n: int = 1):
        self.faults[name] += n

    def checked(self, clause: str, n: int = 1):
        self.clauses[clause] += n

    def violate(self, clause: str, cls: str, detail, stop: bool = False):
        key = f"{self.prop}/{clause}/{cls}"
        if not any(v["key"] == key for v in self.violations):
            self.violations.append(
                {"key": key, "property": self.prop, "clause": clause, "cls": cls,
                 "detail": detail if isinstance(detail, (str, int, list, dict)) else repr(detail),
                 "at_seq": len(self.events)}
            )
        if stop:
            raise Stop()

    def keys(self) -> list[str]:
        return [v["key"] for v in self.violations]

    def log_digest(self) -> str:
        return digest(self.events)


def execute(prop_mod, ch: Choices, cfg: dict | None = None) -> Ctx:
    """Run one simulated execution of property module `prop_mod` under choices `ch`."""
    ctx = Ctx(prop_mod.PROP, ch, cfg)
    try:
        prop_mod.run(ctx)
    except Stop:
        pass
    return ctx


# ---------------------------------------------------------------------------------------------
# Minimisation of the choice trace


def minimise(prop_mod, choices: list[int], key: str, cfg=None, budget_s: float = 15.0,
             max_execs: int = 20000):
    """Shrink `choices` while a violation with the same `key` keeps occurring.

    Returns (minimised choices, ctx of the minimised run, number of candidate executions).
    """
    t0 = time.monotonic()
    execs = 0

    def fails(cand: list[int]):
        nonlocal execs
        execs += 1
        try:
            ctx = execute(prop_mod, Choices(replay=list(cand)), cfg)
        except HarnessError:
            return None
        except Exception:  # harness exception during shrink candidate: not a reproduction
            return None
        if key in ctx.keys():
            # normalise to the choices actually consumed
            return ctx
        return None

    def out_of_budget():
        return time.monotonic() - t0 > budget_s or execs > max_execs

    best = list(choices)
    ctx = fails(best)
    if ctx is None:
        return None, None, execs
    best = list(ctx.ch.trace)
    best_ctx = ctx

    def accept(cand):
        nonlocal best, best_ctx
        c = fails(cand)
        if c is not None:
            tr = list(c.ch.trace)
            # strip trailing zeros (exhausted replay yields zeros anyway)
            while tr and tr[-1] == 0:
                tr.pop()
            if (len(tr), tr) < (len(best), best):
                best, best_ctx = tr, c
                return True
        return False

    # strip trailing zeros first
    tr = list(best)
    while tr and tr[-1] == 0:
        tr.pop()
    if len(tr) < len(best):
        accept(tr)

    improved = True
    while improved and not out_of_budget():
        improved = False
        # 1. truncate tail (binary search)
        k = max(1, len(best) // 2)
        while k >= 1 and not out_of_budget():
            if len(best) >= k and accept(best[:len(best) - k]):
                improved = True
                k = min(k, max(1, len(best) // 2))
            else:
                k //= 2
        # 2. delete blocks
        size = max(1, len(best) // 2)
        while size >= 1 and not out_of_budget():
            i = 0
            while i < len(best) and not out_of_budget():
                cand = best[:i] + best[i + size:]
                if accept(cand):
                    improved = True
                else:
                    i += size
            size //= 2
        # 3. zero blocks
        size = max(1, len(best) // 2)
        while size >= 1 and not out_of_budget():
            i = 0
            while i < len(best) and not out_of_budget():
                if any(best[i:i + size]):
                    cand = best[:i] + [0] * len(best[i:i + size]) + best[i + size:]
                    if accept(cand):
                        improved = True
                i += size
            size //= 2
        # 4. lower single values
        i = 0
        while i < len(best) and not out_of_budget():
            v = best[i]
            if v > 0:
                for nv in (0, v // 2, v - 1):
                    if nv < v and i < len(best) and accept(best[:i] + [nv] + best[i + 1:]):
                        improved = True
                        break
            i += 1
    return best, best_ctx, execs
