"""Batch worker: runs in its own interpreter with a PYTHONHASHSEED chosen by the driver."""

from __future__ import annotations

import argparse
import faulthandler
import importlib
import json
import os
import sys
import time
import traceback
from collections import Counter

from .kernel import Choices, H, HarnessError, canon, digest, execute, minimise


def load_prop(prop: str):
    return importlib.import_module(f"hugrsim.props.{prop.lower()}")


def run_batch(args) -> dict:
    mod = load_prop(args.prop)
    base_cfg = {"tier": args.tier, "batch_index": args.batch_index, "batches": args.batches}
    cfg = dict(base_cfg)
    known = set(json.loads(args.known)) if args.known else set()
    t0 = time.monotonic()
    out = {
        "prop": args.prop, "tier": args.tier, "batch_seed": args.batch_seed,
        "pythonhashseed": os.environ.get("PYTHONHASHSEED"),
        "runs": 0, "steps": 0, "events": 0,
        "probes": Counter(), "faults": Counter(), "clauses": Counter(), "discards": Counter(),
        "profiles": Counter(),
        "violations": [], "known": {}, "harness_errors": [], "samples": [],
        "truncated": False,
    }
    digests = set()
    nontrivial = set()
    scheds = set()
    states = set()
    run_digest_list = []
    first_keys = []
    new_keys: dict[str, dict] = {}
    min_steps = getattr(mod, "NONTRIVIAL_STEPS", 3)
    for r in range(args.runs):
        if time.monotonic() - t0 > args.budget_s:
            out["truncated"] = True
            break
        run_seed = H(args.batch_seed, r)
        ch = Choices(seed=run_seed)
        cfg = dict(base_cfg, run_index=r)
        try:
            ctx = execute(mod, ch, cfg)
        except Exception as e:  # noqa: BLE001  harness error: generator/model/oracle bug
            out["harness_errors"].append(
                {"run_seed": run_seed, "r": r, "error": repr(e), "choices": ch.trace[:2000],
                 "traceback": traceback.format_exc()[-3000:]})
            if len(out["harness_errors"]) >= 3:
                break
            continue
        out["runs"] += 1
        out["steps"] += ctx.steps
        out["events"] += len(ctx.events)
        out["probes"].update(ctx.probes)
        out["faults"].update(ctx.faults)
        out["clauses"].update(ctx.clauses)
        if ctx.discard:
            out["discards"][ctx.discard] += 1
        if ctx.profile:
            out["profiles"][canon(ctx.profile)[:200]] += 1
        d = ctx.log_digest()
        if r == 0:
            first_keys = ctx.keys()
        run_digest_list.append(d)
        digests.add(d)
        if ctx.steps >= min_steps and not ctx.discard:
            nontrivial.add(d)
        scheds.add(digest(ctx.sched))
        for s in ctx.states:
            states.add(s)
        if len(out["samples"]) < 2 and ctx.steps >= min_steps and r >= 1:
            out["samples"].append({"run_seed": run_seed, "profile": ctx.profile,
                                   "trace": ctx.events[:40], "n_events": len(ctx.events)})
        for v in ctx.violations:
            k = v["key"]
            if k in known:
                kn = out["known"].setdefault(k, {"count": 0, "detail": v["detail"], "run_seed": run_seed})
                kn["count"] += 1
            elif k not in new_keys:
                new_keys[k] = {"v": v, "choices": list(ch.trace), "run_seed": run_seed, "r": r,
                               "count": 1, "cfg": cfg}
            else:
                new_keys[k]["count"] += 1
                if len(ch.trace) < len(new_keys[k]["choices"]):
                    new_keys[k].update(v=v, choices=list(ch.trace), run_seed=run_seed, r=r, cfg=cfg)
    # isolation self-check: one seed is one repeatable execution.  Re-execute the first run of the batch now that
    # every other run has happened in this interpreter; if its event log or verdict changed, the system under test
    # kept state across independent histories (a process-global cache, a shared default object, state left behind
    # by an exception).  Reported as a violation whose replay file is the batch order itself.
    if out["runs"] >= 2 and not out["harness_errors"] and getattr(mod, "ISOLATION_CHECK", True):
        first_seed = H(args.batch_seed, 0)
        c0 = dict(base_cfg, run_index=0)
        try:
            again = execute(mod, Choices(seed=first_seed), c0)
            solo_digest = run_digest_list[0] if run_digest_list else None
            if solo_digest is not None and (again.log_digest() != solo_digest or sorted(again.keys()) != sorted(first_keys)):
                key = f"{args.prop}/isolation/first-run-differs-when-repeated-after-the-batch"
                if key not in known:
                    out["violations"].append({
                        "key": key, "property": args.prop, "clause": "isolation", "cls": "first-run-differs-when-repeated-after-the-batch",
                        "detail": {"first_run_keys": sorted(first_keys), "repeated_keys": sorted(again.keys()),
                                   "digest_first": solo_digest, "digest_repeated": again.log_digest(), "runs_in_between": out["runs"] - 1},
                        "run_seed": first_seed, "count": 1, "choices": [], "orig_len": 0, "min_execs": 0,
                        "log_digest": again.log_digest(), "trace": again.events[-30:], "profile": again.profile, "cfg": c0,
                        "all_keys": [key], "kind": "batch-order", "batch_runs": out["runs"], "batch_seed": args.batch_seed})
        except Exception as e:  # noqa: BLE001
            out["harness_errors"].append({"run_seed": first_seed, "error": f"isolation re-execution raised {e!r}"})
    # minimise new violations (same interpreter, same hash seed)
    per_key_budget = max(3.0, min(20.0, args.min_budget_s / max(1, len(new_keys))))
    for k, rec in sorted(new_keys.items()):
        mins, mctx, execs = minimise(mod, rec["choices"], k, rec["cfg"], budget_s=per_key_budget)
        if mins is None:
            # the same choices give another verdict now that more runs have happened in this interpreter: the verdict
            # depends on the runs before it.  Handed to the driver as a batch-prefix candidate (replayed from a fresh
            # interpreter: runs 0..r of this batch in order).
            v0 = rec["v"]
            out["violations"].append({
                "key": k, "property": args.prop, "clause": v0["clause"], "cls": v0["cls"], "detail": v0["detail"],
                "run_seed": rec["run_seed"], "count": rec["count"], "choices": rec["choices"], "orig_len": len(rec["choices"]),
                "min_execs": 0, "log_digest": None, "trace": [], "profile": None, "cfg": rec["cfg"], "all_keys": [k],
                "r": rec["r"], "prefix_only": True})
            continue
        v = next(x for x in mctx.violations if x["key"] == k)
        out["violations"].append({
            "key": k, "property": args.prop, "clause": v["clause"], "cls": v["cls"],
            "detail": v["detail"], "run_seed": rec["run_seed"], "count": rec["count"],
            "choices": mins, "orig_len": len(rec["choices"]), "min_execs": execs,
            "log_digest": mctx.log_digest(), "trace": mctx.events, "profile": mctx.profile, "cfg": rec["cfg"],
            "all_keys": mctx.keys(), "r": rec["r"],
        })
    out["distinct"] = len(digests)
    out["distinct_nontrivial_digests"] = sorted(nontrivial) if len(nontrivial) <= 200000 else None
    out["distinct_nontrivial"] = len(nontrivial)
    out["distinct_scheds"] = len(scheds)
    out["distinct_states"] = len(states)
    out["wall_s"] = round(time.monotonic() - t0, 3)
    if args.digests_out:
        with open(args.digests_out, "w") as f:
            json.dump(run_digest_list, f)
    for c in ("probes", "faults", "clauses", "discards", "profiles"):
        out[c] = dict(sorted(out[c].items()))
    extra = getattr(mod, "batch_extra", None)
    if extra:
        out["extra"] = extra()
    return out


def run_replay(args) -> dict:
    with open(args.replay) as f:
        rp = json.load(f)
    mod = load_prop(rp["property"])
    if rp.get("kind") == "batch-order":
        base = dict(rp.get("cfg") or {"tier": rp.get("tier", "quick")})
        bs, n = rp["batch_seed"], rp["batch_runs"]
        first = None
        for r in range(n):
            c = execute(mod, Choices(seed=H(bs, r)), dict(base, run_index=r))
            if r == 0:
                first = (c.log_digest(), sorted(c.keys()))
        again = execute(mod, Choices(seed=H(bs, 0)), dict(base, run_index=0))
        differs = (again.log_digest(), sorted(again.keys())) != first
        return {"replay": args.replay, "keys": [rp["key"]] if differs else [], "expected_key": rp["key"], "reproduced": differs,
                "log_digest": again.log_digest(), "expected_digest": rp.get("log_digest"), "violations": [], "trace": again.events[-20:]}
    if rp.get("kind") == "batch-prefix":
        # the violation shows in run `runs[-1]` of the batch only after the listed earlier runs have happened in the
        # same interpreter (state kept across independent histories)
        base = {k: v for k, v in (rp.get("cfg") or {"tier": rp.get("tier", "quick")}).items() if k != "run_index"}
        bs = rp["batch_seed"]
        c = None
        for r in rp["runs"]:
            c = execute(mod, Choices(seed=H(bs, r)), dict(base, run_index=r))
        keys = c.keys()
        return {"replay": args.replay, "keys": keys, "expected_key": rp["key"], "reproduced": rp["key"] in keys,
                "log_digest": c.log_digest(), "expected_digest": rp.get("log_digest"), "violations": c.violations,
                "trace": c.events[-40:]}
    cfg = dict(rp.get("cfg") or {"tier": rp.get("tier", "quick")}, replay=True)
    ctx = execute(mod, Choices(replay=list(rp["choices"])), cfg)
    keys = ctx.keys()
    return {"replay": args.replay, "keys": keys, "expected_key": rp["key"],
            "reproduced": rp["key"] in keys, "log_digest": ctx.log_digest(),
            "expected_digest": rp.get("log_digest"),
            "violations": ctx.violations, "trace": ctx.events}


def main(argv=None):
    faulthandler.enable()
    p = argparse.ArgumentParser()
    p.add_argument("--prop")
    p.add_argument("--tier", default="quick")
    p.add_argument("--batch-seed", type=int, default=0)
    p.add_argument("--runs", type=int, default=100)
    p.add_argument("--batch-index", type=int, default=0)
    p.add_argument("--batches", type=int, default=1)
    p.add_argument("--budget-s", type=float, default=60.0)
    p.add_argument("--min-budget-s", type=float, default=20.0)
    p.add_argument("--known", default="")
    p.add_argument("--out", required=True)
    p.add_argument("--digests-out", default="")
    p.add_argument("--replay", default="")
    args = p.parse_args(argv)
    faulthandler.dump_traceback_later(args.budget_s + args.min_budget_s + 60, exit=True)
    try:
        res = run_replay(args) if args.replay else run_batch(args)
    except Exception as e:  # noqa: BLE001
        res = {"fatal": repr(e), "traceback": traceback.format_exc()[-4000:],
               "harness_errors": [{"error": repr(e)}]}
    tmp = args.out + ".tmp"
    with open(tmp, "w") as f:
        json.dump(res, f, default=repr)
    os.replace(tmp, args.out)
    return 0


if __name__ == "__main__":
    sys.exit(main())
