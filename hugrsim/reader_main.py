"""Reader node: a fresh interpreter (own PYTHONHASHSEED, fresh module state) that loads stored
objects and reports what it sees through the public API.  One JSON request per line on stdin,
one JSON response per line on stdout."""

from __future__ import annotations

import base64
import json
import sys


def obs_hugr(h):
    nodes = []
    for n in h:
        d = h[n]
        par = d.parent if d.parent is not None else n
        try:
            enc = d.op._to_serial(par).model_dump(mode="json")
        except Exception as e:  # noqa: BLE001
            enc = {"error": f"{type(e).__name__}: {e}"}
        nodes.append({"idx": n.idx, "op": enc, "parent": d.parent.idx if d.parent is not None else None,
                      "children": [c.idx for c in h.children(n)], "metadata": d.metadata})
    links = sorted([a.node.idx, a.offset, b.node.idx, b.offset] for a, b in h.links())
    return {"nodes": nodes, "links": links, "root": h.root.idx}


def handle(req):
    kind = req["kind"]
    if kind == "ping":
        import hugr  # noqa: F401
        return {"ok": True, "hashseed": __import__("os").environ.get("PYTHONHASHSEED")}
    if kind == "hugr":
        from hugr.hugr import Hugr
        h = Hugr.load_json(req["doc"])
        return {"obs": obs_hugr(h), "json2": h.to_json()}
    if kind == "package":
        from hugr.package import Package
        data = base64.b64decode(req["data"]) if "data" in req else None
        p = Package.from_bytes(data) if data is not None else Package.from_str(req["text"])
        return {"modules": [m.to_json() for m in p.modules], "extensions": [e.to_json() for e in p.extensions]}
    if kind == "extension":
        from hugr.ext import Extension
        e = Extension.from_json(req["doc"])
        return {"json2": e.to_json(), "summary": ext_summary(e)}
    raise ValueError(f"unknown request {kind}")


def ext_summary(e):
    out = {"name": e.name, "version": str(e.version), "runtime_reqs": sorted(e.runtime_reqs),
           "types": {}, "operations": {}, "values": {}}
    for k, t in e.types.items():
        out["types"][k] = {"name": t.name, "description": t.description, "params": [repr(p) for p in t.params],
                           "bound": repr(t.bound), "owner": t.get_extension().name}
    for k, o in e.operations.items():
        pf = o.signature.poly_func
        out["operations"][k] = {"name": o.name, "description": o.description, "misc": o.misc, "binary": o.signature.binary,
                                "sig": None if pf is None else pf._to_serial().model_dump(mode="json"),
                                "owner": o.get_extension().name}
    for k, v in e.values.items():
        out["values"][k] = {"name": v.name, "val": v.val._to_serial_root().model_dump(mode="json")}
    return out


def main():
    for line in sys.stdin:
        line = line.strip()
        if not line:
            continue
        try:
            resp = handle(json.loads(line))
        except Exception as e:  # noqa: BLE001
            resp = {"error": type(e).__name__, "mro": [c.__name__ for c in type(e).__mro__], "msg": str(e)[:500]}
        sys.stdout.write(json.dumps(resp, default=repr) + "\n")
        sys.stdout.flush()


if __name__ == "__main__":
    main()
