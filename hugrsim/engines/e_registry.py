"""Engine E — extension registry sessions: extensions are built by seeded histories of public
API calls (add_type_def / add_op_def / add_extension_value / register_op, re-adding under an
existing name, adding one definition object to a second extension)."""

from __future__ import annotations

EXT_NAMES = ["verif.a", "verif.b", "verif.q", "z.ext"]
REQ_POOL = ["prelude", "logic", "verif.a", "verif.b", "arithmetic.int.types", "x.y"]


def gen_param(ch, depth=0):
    from hugr import tys

    k = ch.weighted([4, 3, 1, 1 if depth < 2 else 0, 1 if depth < 2 else 0, 1], "param")
    if k == 0:
        return tys.TypeTypeParam(ch.pick([tys.TypeBound.Copyable, tys.TypeBound.Any], "bound"))
    if k == 1:
        return tys.BoundedNatParam(ch.pick([None, 7, 1], "nat-bound"))
    if k == 2:
        return tys.StringParam()
    if k == 3:
        return tys.ListParam(gen_param(ch, depth + 1))
    if k == 4:
        return tys.TupleParam([gen_param(ch, depth + 1) for _ in range(ch.draw(3, "tuple-n"))])
    return tys.ExtensionsParam()


def gen_type(ch, ext, params, depth=0):
    """A type usable in an op signature of `ext` whose scheme binds `params`."""
    from hugr import tys
    from hugr.std.float import FLOAT_T
    from hugr.std.int import int_t

    tvars = [i for i, p in enumerate(params) if isinstance(p, tys.TypeTypeParam)]
    own = [t for t in ext.types.values() if not t.params]
    w = [4, 3, 2, 2, 2 if tvars else 0, 2 if own else 0, 1 if depth < 2 else 0, 1 if depth < 2 else 0]
    k = ch.weighted(w, "ext-type")
    if k == 0:
        return tys.Bool
    if k == 1:
        return tys.Qubit
    if k == 2:
        return int_t(ch.pick([5, 3], "w"))
    if k == 3:
        return FLOAT_T
    if k == 4:
        i = ch.pick(tvars, "tvar")
        return tys.Variable(i, params[i].bound)
    if k == 5:
        return ch.pick(own, "own-type").instantiate([])
    if k == 6:
        return tys.Tuple(*[gen_type(ch, ext, params, depth + 1) for _ in range(1 + ch.draw(2, "n"))])
    return tys.FunctionType([gen_type(ch, ext, params, depth + 1)], [gen_type(ch, ext, params, depth + 1)])


def gen_value(ch):
    from hugr import val
    from hugr.std.float import FloatVal
    from hugr.std.int import IntVal

    k = ch.draw(5, "value")
    if k == 0:
        return val.TRUE
    if k == 1:
        return IntVal(ch.draw(100, "iv"), 5)
    if k == 2:
        return FloatVal(1.5)
    if k == 3:
        return val.Tuple(val.FALSE, IntVal(1, 3))
    return val.Some(val.TRUE)


class ExtSession:
    """Builds 1-3 extensions step by step; `log` goes to ctx events."""

    def __init__(self, ctx):
        from semver import Version

        from hugr.ext import Extension

        self.ctx = ctx
        ch = ctx.ch
        self.exts = []
        n = 1 + ch.draw(3, "n-ext")
        names = list(EXT_NAMES)
        for i in range(n):
            name = names.pop(ch.draw(len(names), "ext-name"))
            reqs = set(ch.subset(REQ_POOL, 1, 3, "req"))
            ver = Version(ch.draw(3, "maj"), ch.draw(12, "min"), ch.draw(3, "pat"),
                          prerelease=ch.pick([None, None, "rc.1", "alpha"], "prerelease"), build=ch.pick([None, None, "build.5"], "build"))
            if ver.prerelease or ver.build:
                ctx.probe("version_with_prerelease_or_build")
            e = Extension(name, ver, runtime_reqs=set(reqs)) if reqs or ch.coin(1, 2, "reqs-kw") else Extension(name, ver)
            ctx.ev(i, "Extension", {"name": name, "version": str(ver), "reqs": sorted(reqs)})
            if len(reqs) >= 2:
                ctx.probe("ext_with_two_or_more_reqs")
            self.exts.append(e)
        self.counter = 0

    def step(self):
        from hugr import ext as hext
        from hugr import tys

        ctx = self.ctx
        ch = ctx.ch
        i = ch.draw(len(self.exts), "sched")
        e = self.exts[i]
        self.counter += 1
        ctx.steps += 1
        k = ch.weighted([4, 6, 2, 1, 1 if len(self.exts) > 1 else 0, 1 if len(self.exts) > 1 else 0, 1 if len(self.exts) < 4 else 0], "ext-step")
        if e.operations and ch.coin(1, 10, "refused-add"):
            # fault, then workload: an add_op_def that fails (a bare FunctionType where an OpDefSig is expected) is caught
            # by the caller; the extension, never successfully modified, must be exactly as before
            from hugr import ext as hext
            from hugr import tys
            victim = ch.pick(sorted(e.operations), "refused-name")
            try:
                e.add_op_def(hext.OpDef(victim, tys.FunctionType([], [])))
                ctx.ev(i, "add_op_def(bad signature object)", victim, "returned")
            except Exception as ex:  # noqa: BLE001
                ctx.ev(i, "add_op_def(bad signature object)", victim, type(ex).__name__)
                ctx.fault("refused_add_op_def_then_continue")
                ctx.checked("unchanged-after-refusal")
                try:
                    e.get_op(victim).get_extension()
                    e.to_json()
                except Exception as ex2:  # noqa: BLE001
                    ctx.violate("owner", f"extension-broken-by-a-refused-add_op_def:{type(ex2).__name__}", {"ext": e.name, "op": victim})
            return
        if k == 6:
            # a working copy of an extension, obtained by a round trip: equal to the original as a value, a distinct object
            from hugr.ext import Extension
            try:
                clone = Extension.from_json(e.to_json())
            except Exception as ex:  # noqa: BLE001
                ctx.violate("load", f"clone-raised:{type(ex).__name__}", {"ext": e.name, "msg": str(ex)[:200]})
                return
            self.exts.append(clone)
            ctx.probe("extension_cloned_by_round_trip")
            ctx.ev(i, "clone = from_json(to_json(ext))", {"ext": e.name})
            return
        if k == 0:
            reuse = list(e.types) and ch.coin(1, 5, "re-add-type")
            name = ch.pick(sorted(e.types), "which") if reuse else f"T{self.counter}"
            params = [gen_param(ch) for _ in range(ch.draw(3, "n-params"))]
            if ch.coin(1, 2, "explicit"):
                bound = hext.ExplicitBound(ch.pick([tys.TypeBound.Copyable, tys.TypeBound.Any], "tb"))
            else:
                # indices name parameters of the definition (an index beyond the parameter list is an ill-formed definition)
                bound = hext.FromParamsBound([ch.draw(len(params), "idx") for _ in range(ch.draw(5, "n-idx"))] if params else [])
            td = hext.TypeDef(name, ch.pick(["", "a type", "né ☃"], "descr"), params, bound)
            r = e.add_type_def(td)
            ctx.ev(i, "add_type_def", {"ext": e.name, "name": name, "params": len(params), "bound": type(bound).__name__, "re-add": bool(reuse)})
            ctx.checked("add-returns")
            if r is not e.types[name]:
                ctx.violate("owner", "add_type_def-return", {"name": name})
        elif k == 1:
            reuse = list(e.operations) and ch.coin(1, 5, "re-add-op")
            name = ch.pick(sorted(e.operations), "which") if reuse else f"op{self.counter}"
            kind = ch.weighted([4, 3, 2, 1], "sig-kind")
            params = []
            if kind == 1:
                params = [gen_param(ch) for _ in range(1 + ch.draw(2, "n-params"))]
            if kind == 3:
                sig = hext.OpDefSig(None, binary=True)
            else:
                reqs = ch.subset(REQ_POOL, 1, 4, "sig-req")
                if reqs and ch.coin(1, 4, "reqs-written-with-repeats"):
                    # the same set written another way: a name repeated, not in sorted order
                    reqs = [*reversed(reqs), reqs[ch.draw(len(reqs), "repeat-which")]]
                    ctx.probe("requirement_list_with_a_repeated_name")
                ft = tys.FunctionType([gen_type(ch, e, params) for _ in range(ch.draw(3, "n-in"))],
                                      [gen_type(ch, e, params) for _ in range(ch.draw(3, "n-out"))], list(reqs))
                if len(set(reqs) | {e.name}) >= 2:
                    ctx.probe("signature_with_two_or_more_reqs")
                if kind == 2:
                    sig = hext.OpDefSig(ft)  # plain FunctionType form
                else:
                    sig = hext.OpDefSig(tys.PolyFuncType(params, ft), binary=ch.coin(1, 6, "binary-too"))
            misc = ch.pick([{}, {"k": 1}, {"nested": {"a": [1, None]}, "s": "né"}], "misc")
            if ch.coin(1, 8, "misc-deeply-nested"):
                # size class: free-form payloads nest as deep as their author likes
                import copy
                deep = ch.pick([7, "leaf", [1, {"x": None}], {}], "misc-leaf")
                for lvl in range(4 + ch.draw(12, "misc-depth")):
                    deep = {"d": deep} if (lvl + ch.draw(2, "misc-kind")) % 2 else [deep, lvl]
                misc = dict(copy.deepcopy(misc), deep=deep)
                ctx.probe("misc_nested_6_levels_or_more")
            od = hext.OpDef(name, sig, ch.pick(["", "an op", 'q"\\'], "descr"), dict(misc))
            r = e.add_op_def(od)
            ctx.ev(i, "add_op_def", {"ext": e.name, "name": name, "kind": kind, "params": len(params), "re-add": bool(reuse)})
            if r is not e.operations[name]:
                ctx.violate("owner", "add_op_def-return", {"name": name})
        elif k == 2:
            name = f"v{self.counter}"
            taken = sorted(set(e.operations) | set(e.types))
            if taken and ch.coin(1, 3, "value-named-like-a-definition"):
                name = ch.pick(taken, "which-name")  # values, operations and types are separate name spaces
                ctx.probe("value_shares_a_name_with_an_op_or_type")
            e.add_extension_value(hext.ExtensionValue(name, gen_value(ch)))
            ctx.ev(i, "add_extension_value", {"ext": e.name, "name": name})
        elif k == 3:
            from hugr.ops import RegisteredOp
            name = f"Reg{self.counter}"
            sig = tys.FunctionType([tys.Bool], [tys.Bool]) if ch.coin(2, 3, "reg-sig") else None

            def mk():
                class Op(RegisteredOp):
                    """A registered op."""
                Op.__name__ = name
                return Op
            cls = mk()
            if ch.coin(1, 2, "reg-name"):
                e.register_op(name, sig)(cls)
            else:
                e.register_op(signature=sig, description=ch.pick([None, "explicit"], "reg-descr"))(cls)
            ctx.ev(i, "register_op", {"ext": e.name, "name": name, "sig": sig is not None})
            ctx.checked("register")
            if cls.const_op_def is not e.operations.get(name):
                ctx.violate("owner", "register_op-const_op_def", {"name": name})
        elif k == 4:
            # add a definition object of another extension to this one
            others = [x for x in self.exts if x is not e and x.operations]
            if not others:
                ctx.ev(i, "noop")
                return
            o = ch.pick(others, "other-ext")
            od = o.operations[ch.pick(sorted(o.operations), "which-op")]
            e.add_op_def(od)
            ctx.probe("opdef_added_to_second_extension")
            ctx.ev(i, "add_op_def(shared object)", {"ext": e.name, "from": o.name, "name": od.name})
        else:
            others = [x for x in self.exts if x is not e and x.types]
            if not others:
                ctx.ev(i, "noop")
                return
            o = ch.pick(others, "other-ext")
            td = o.types[ch.pick(sorted(o.types), "which-type")]
            e.add_type_def(td)
            ctx.probe("typedef_added_to_second_extension")
            ctx.ev(i, "add_type_def(shared object)", {"ext": e.name, "from": o.name, "name": td.name})

    def check_owner(self):
        """Every definition held by an extension reports it as owner; op signatures require it."""
        ctx = self.ctx
        ctx.checked("owner")
        for e in self.exts:
            for name, od in e.operations.items():
                try:
                    owner = od.get_extension()
                except Exception as ex:  # noqa: BLE001
                    ctx.violate("owner", f"op-get_extension-raised:{type(ex).__name__}", {"ext": e.name, "op": name})
                    continue
                if owner is not e:
                    ctx.violate("owner", "op-held-by-extension-reports-another-owner", {"ext": e.name, "op": name, "owner": owner.name})
                pf = od.signature.poly_func
                if pf is not None and e.name not in pf.body.runtime_reqs:
                    ctx.violate("owner", "op-signature-lacks-own-extension", {"ext": e.name, "op": name, "reqs": list(pf.body.runtime_reqs)})
                if name != od.name:
                    ctx.violate("owner", "op-key-differs-from-name", {"ext": e.name, "key": name, "name": od.name})
            for name, td in e.types.items():
                if td.get_extension() is not e:
                    ctx.violate("owner", "type-held-by-extension-reports-another-owner", {"ext": e.name, "type": name, "owner": td.get_extension().name})
            for name, v in e.values.items():
                if v.get_extension() is not e:
                    ctx.violate("owner", "value-held-by-extension-reports-another-owner", {"ext": e.name, "value": name})
