"""Engine B — interleaved open builders on one shared Hugr.

Each open builder (function body, nested DFG, case, basic block, loop body) is an actor; container
controllers (conditional, CFG) are actors too (they open cases / blocks and add branches).  The
seeded scheduler picks which actor makes the next public-API call.  Programs are well-formed by
construction: type-directed generation, every input wired once, every linear wire consumed once,
goal-directed close.
"""

from __future__ import annotations

from ..kernel import HarnessError

_T = None


def T():
    """Lazy namespace of hugr objects used by the generator."""
    global _T
    if _T is None:
        import types as _types

        from hugr import ops, tys, val
        from hugr.std.float import FLOAT_T, FloatVal
        from hugr.std.int import DivMod, IntVal, int_t
        from hugr.std.logic import Not
        from hugr.std.prelude import STRING_T, StringVal

        ns = _types.SimpleNamespace(ops=ops, tys=tys, val=val, FLOAT_T=FLOAT_T, FloatVal=FloatVal, DivMod=DivMod,
                                    IntVal=IntVal, int_t=int_t, Not=Not, STRING_T=STRING_T, StringVal=StringVal)
        from hugr.std.collections.array import Array, ArrayVal
        from hugr.std.collections.list import List, ListVal

        ns.Array, ns.ArrayVal, ns.List, ns.ListVal = Array, ArrayVal, List, ListVal
        ns.Q = tys.Qubit
        ns.B = tys.Bool
        ns.I5 = int_t(5)
        F = tys.FunctionType

        def q(name, i, o):
            return lambda: ops.Custom(name, F(list(i), list(o), ["verif.q"]), "", "verif.q", [])

        ns.QOPS = {
            "QAlloc": q("QAlloc", [], [ns.Q]), "QFree": q("QFree", [ns.Q], []), "H": q("H", [ns.Q], [ns.Q]),
            "CX": q("CX", [ns.Q, ns.Q], [ns.Q, ns.Q]), "Measure": q("Measure", [ns.Q], [ns.Q, ns.B]),
            "Rz": q("Rz", [ns.Q, FLOAT_T], [ns.Q]), "Triple": q("Triple", [ns.B], [ns.B, ns.B, ns.B]),
        }
        # the same extension defined through the public ext API: ExtOp instances (incl. a row-polymorphic definition)
        from semver import Version
        from hugr import ext as hext
        qx = hext.Extension("verif.q", Version(0, 1, 0))
        for name, mk in ns.QOPS.items():
            sig = mk().signature
            qx.add_op_def(hext.OpDef(name, hext.OpDefSig(F(list(sig.input), list(sig.output)))))
        rparam = tys.ListParam(tys.TypeTypeParam(tys.TypeBound.Copyable))
        qx.add_op_def(hext.OpDef("Fanout", hext.OpDefSig(tys.PolyFuncType([rparam], F([ns.B], [tys.RowVariable(0, tys.TypeBound.Copyable)])))))
        ns.QEXT = qx

        def qext(name):
            d = qx.get_op(name)
            sig = ns.QOPS[name]().signature
            return d.instantiate([], F(list(sig.input), list(sig.output)))
        ns.qext = qext
        ns.fanout = lambda n: qx.get_op("Fanout").instantiate([tys.SequenceArg([tys.TypeTypeArg(ns.B)] * n)], F([ns.B], [ns.B] * n))
        # an extension no registry knows until the last resolution step (C11 workloads only)
        ns.UT = tys.Opaque("ut", tys.TypeBound.Copyable, [tys.TypeTypeArg(Array(int_t(5), 2))], "verif.u")
        ns.UINT = tys.Opaque("int", tys.TypeBound.Copyable, [tys.BoundedNatArg(5)], "verif.u")  # same id as arithmetic.int.types.int
        ns.UOP = lambda: ops.Custom("uop", F([ns.B], [ns.UT], ["verif.u"]), "about uop", "verif.u",
                                    [tys.TypeTypeArg(ns.UT), tys.SequenceArg([tys.TypeTypeArg(int_t(3)), tys.BoundedNatArg(4)]),
                                     tys.SequenceArg([tys.SequenceArg([tys.TypeTypeArg(FLOAT_T)]), tys.SequenceArg([tys.BoundedNatArg(7), tys.TypeTypeArg(int_t(5))])]),
                                     tys.TypeTypeArg(List(int_t(5))), tys.TypeTypeArg(List(ns.UINT))])
        _T = ns
    return _T


class RowArg:
    """A row of wires handed to the system under test as some iterable (list / tuple / one-shot iterator / generator /
    slice of a handle).  The harness keeps the items for its log; `arg()` builds the object actually passed."""
    FORMS = ["list", "tuple", "iterator", "generator"]

    def __init__(self, ch, items, one_shot_ok=False):
        # one-shot forms only where the documented parameter type is Iterable; where it is Sequence (the tail-loop rows)
        # a correct implementation may walk the argument twice
        self.items = list(items)
        self.form = self.FORMS[ch.weighted([3, 1, 1 if one_shot_ok else 0, 1 if one_shot_ok else 0], "row-form")]

    def arg(self):
        if self.form == "list":
            return list(self.items)
        if self.form == "tuple":
            return tuple(self.items)
        if self.form == "iterator":
            return iter(list(self.items))
        return (x for x in list(self.items))


class Discard(Exception):
    """A builder call raised on a well-formed program: the run is outside C01's antecedent."""


class W:
    __slots__ = ("wire", "ty", "lin", "used", "node_idx", "owner", "var")

    def __init__(self, wire, ty, owner=None):
        self.wire = wire
        self.ty = ty
        self.lin = is_linear(ty)
        self.used = False
        self.node_idx = wire.out_port().node.idx
        self.owner = owner
        self.var = has_var(ty)


def has_var(ty) -> bool:
    t = T().tys
    if isinstance(ty, (t.Variable, t.RowVariable)):
        return True
    if isinstance(ty, t.Sum):
        return any(has_var(x) for r in ty.variant_rows for x in r)
    if isinstance(ty, t.FunctionType):
        return any(has_var(x) for x in [*ty.input, *ty.output])
    return False


def is_linear(ty) -> bool:
    return ty.type_bound() == T().tys.TypeBound.Any


def mk_sum(rows):
    """Canonical Python representation of a sum (never a general sum with all rows empty)."""
    t = T().tys
    if all(len(r) == 0 for r in rows) and not (_EMPTY_ROW_SUMS[0] and _EMPTY_ROW_SUMS[0].coin(1, 3, "general-unit-sum")):
        return t.UnitSum(len(rows))
    return t.Sum([list(r) for r in rows])


# when set to the run's Choices, sums whose rows are all empty are sometimes written in their general form
# (Tuple(), Option(), Either([], []), Sum([[], []])): the reference reader normalises them to unit sums
_EMPTY_ROW_SUMS = [None]


def constable(ty) -> bool:
    t = T()
    if isinstance(ty, t.tys.Sum):
        return all(constable(x) for r in ty.variant_rows for x in r) and len(ty.variant_rows) > 0
    if isinstance(ty, t.tys.ExtType):
        if ty.type_def.name in ("array", "List"):
            return constable(ty.ty)
        return ty == t.FLOAT_T or ty == t.STRING_T or (ty.type_def.name == "int")
    return False


def synthesizable(ty) -> bool:
    t = T()
    if ty == t.Q or constable(ty):
        return True
    if isinstance(ty, t.tys.Sum):
        return len(ty.variant_rows) > 0 and any(all(synthesizable(x) for x in r) for r in ty.variant_rows)
    return False


class Actor:
    """A dataflow builder actor."""

    def __init__(self, sim, kind, b, inputs, parent, func_root, required=None, on_close=None, dom_visible=None):
        self.sim = sim
        self.id = sim.next_id()
        self.kind = kind
        self.b = b
        self.parent = parent  # enclosing dataflow actor (for Ext visibility)
        self.func_root = func_root if func_root is not None else self
        self.required = required
        self.on_close = on_close
        self.pool = [W(w, ty, self) for w, ty in zip(b.inputs(), inputs)]
        self.region_node_idx = None  # node of the enclosing region that contains this actor
        # a required output of a linear type that cannot be synthesised must be forwarded from an input: keep one
        for ty in (required or []):
            if is_linear(ty) and not synthesizable(ty):
                for w in self.pool:
                    if w.ty == ty and not w.var:
                        w.var = True  # reserved: only `find` (i.e. close) may take it
                        break
        self.open_children = 0
        self.closed = False
        self.nodes = [b.input_node]  # local nodes in creation order (for state order steps)
        self.dom_visible = dom_visible or []  # actors (blocks) whose copyable wires are visible through Dom edges
        self.depth = 0 if parent is None else parent.depth + 1
        self.type_vars = None  # set for polymorphic function bodies
        self.tmodel = None  # index model when the builder is a TrackedDfg

    # ---- wire selection ----------------------------------------------------------------
    def visible_outer(self, ty=None):
        """Copyable wires (of type ty) in enclosing regions of the same function (Ext edges) or in
        dominating blocks (Dom edges), excluding those whose order edge would close a cycle."""
        out = []
        a, below = self.parent, self
        while a is not None and a.func_root is self.func_root:
            c = below.region_node_idx
            for w in a.pool:
                if not w.lin and not w.var and (ty is None or w.ty == ty) and c is not None \
                        and not self.sim.reaches(a, c, w.node_idx):
                    out.append(w)
            a, below = a.parent, a
        for blk in self.dom_visible:
            out.extend(w for w in blk.pool if not w.lin and not w.var and (ty is None or w.ty == ty))
        return out

    def use_outer(self, w):
        """Record the order edge an Ext use of w creates (source node -> container in its region)."""
        if any(w in blk.pool for blk in self.dom_visible):
            self.sim.ctx.probe("dom_edge")
            return
        below = self
        while below.parent is not w.owner:
            below = below.parent
        self.sim.dep(w.owner, w.node_idx, below.region_node_idx)
        self.sim.ctx.probe("ext_edge")

    def live(self, novar=True):
        return [w for w in self.pool if not (w.lin and w.used) and not (novar and w.var)]

    def find(self, ty, allow_synth=True):
        """A wire of type ty usable now: local unused, local copyable, outer copyable, or synthesised."""
        ch = self.sim.ctx.ch
        local = [w for w in self.pool if w.ty == ty and not (w.lin and w.used)]
        outer = self.visible_outer(ty) if not is_linear(ty) else []
        if local and (not outer or not ch.coin(1, 3, "use-outer")):
            w = local[ch.draw(len(local), "wire")]
        elif outer:
            w = outer[ch.draw(len(outer), "outer-wire")]
            self.use_outer(w)
        elif allow_synth and synthesizable(ty):
            w = self.synth(ty)
        else:
            return None
        if w.lin:
            w.used = True
        return w

    def can_find(self, ty):
        if any(w.ty == ty and not (w.lin and w.used) for w in self.pool):
            return True
        if not is_linear(ty) and self.visible_outer(ty):
            return True
        return synthesizable(ty)

    def add_out(self, node, tys_):
        ws = [W(node.out(i), ty, self) for i, ty in enumerate(tys_)]
        self.pool.extend(ws)
        return ws

    # ---- builder calls (each is one event) ------------------------------------------------
    def call(self, name, fn, *a, **kw):
        sim = self.sim
        if getattr(sim, "fresh_handles", False) and a and sim.ctx.ch.coin(1, 3, "equal-but-not-identical-handles"):
            # handles are values: an equal node / port object built by the client names the same node / port
            from hugr.hugr.node_port import InPort, Node, OutPort
            def fresh(x):
                if type(x) is Node:
                    return Node(x.idx)
                if type(x) is OutPort:
                    return OutPort(Node(x.node.idx), x.offset)
                if type(x) is InPort:
                    return InPort(Node(x.node.idx), x.offset)
                return x
            a = tuple(fresh(x) for x in a)
            sim.ctx.probe("equal_but_not_identical_handles")
        try:
            if any(isinstance(x, RowArg) for x in a):
                if any(x.form in ("iterator", "generator") for x in a if isinstance(x, RowArg)):
                    sim.ctx.probe("row_given_as_one_shot_iterator")
                r = fn(*[x.arg() if isinstance(x, RowArg) else x for x in a], **kw)
            else:
                r = fn(*a, **kw)
        except Exception as e:  # noqa: BLE001
            sim.ctx.ev(self.id, name, sim.describe(a, kw), f"raised {type(e).__name__}: {str(e)[:120]}")
            raise Discard(f"{name}:{type(e).__name__}") from e
        sim.ctx.ev(self.id, name, sim.describe(a, kw), sim.describe_ret(r))
        sim.ctx.steps += 1
        return r

    def respell(self, wires):
        """The same wires written another way: a node for its output 0, negative indices, slices of the producer's handle
        (`n[1:]`, `n[:-1]`, `n[-2:]`, `*n`) - every spelling denotes the ports it would denote on range(count)."""
        sim = self.sim
        if not getattr(sim, "respell_wires", False):
            return wires
        ch = sim.ctx.ch
        out, i = [], 0
        while i < len(wires):
            p = wires[i]
            h = p.node
            n = h._num_out_ports
            j = i
            while j + 1 < len(wires) and wires[j + 1].node.idx == h.idx and wires[j + 1].offset == wires[j].offset + 1:
                j += 1
            if n is not None and ch.coin(1, 3, "spell-as-slice"):
                a, b = p.offset, wires[j].offset + 1
                forms = [lambda: h[a:b], lambda: h[a - n:b], lambda: h[a:b + 5] if b == n else h[a:b - n],
                         lambda: h[a:] if b == n else h[a:b], lambda: h[:b] if a == 0 else h[a:b]]
                got = list(forms[ch.draw(len(forms), "slice-form")]())
                sim.ctx.probe("wires_spelled_as_slice")
                out.extend(got)
                i = j + 1
                continue
            if p.offset == 0 and ch.coin(1, 3, "spell-as-node"):
                out.append(h)
                sim.ctx.probe("wire_spelled_as_node")
            elif n is not None and ch.coin(1, 3, "spell-with-negative-index"):
                out.append(h[p.offset - n])
            else:
                out.append(p)
            i += 1
        return out

    def add_op(self, op, ins, out_tys, md=None, opname=None):
        """Add a dataflow op through add_op / add(Command) / extend."""
        ch = self.sim.ctx.ch
        wires = self.respell([w.wire for w in ins])
        how = ch.draw(3, "how-add")
        name = opname or type(op).__name__
        if self.tmodel is not None and how != 0 and md is None and ins and len(out_tys) >= len(ins):
            return self.add_tracked(op, ins, out_tys, name, how)
        if how == 0 or md is not None:
            kw = {"metadata": md} if md is not None else {}
            n = self.call(f"add_op:{name}", self.b.add_op, op, *wires, **kw)
        elif how == 1:
            n = self.call(f"add:{name}", self.b.add, T().ops.Command(op, wires))
        else:
            n = self.call(f"extend:{name}", self.b.extend, T().ops.Command(op, wires))[0]
        self.nodes.append(n)
        self.dep_local(ins, n.idx)
        self.sim.handle(n, len(out_tys), f"add_op:{name}")
        if md is not None:
            self.sim.meta[n.idx] = md
        return self.add_out(n, out_tys)

    def add_tracked(self, op, ins, out_tys, name, how):
        """TrackedDfg root: pass some arguments as tracked indices.  `tmodel` is the generator's own index
        model (the contract of C15: an index denotes the most recent wire stored at it), never `b.tracked`."""
        ch = self.sim.ctx.ch
        args = []
        used_idx = set()
        for pos, w in enumerate(ins):
            key = (w.node_idx, w.wire.out_port().offset)
            if ch.coin(1, 2, "by-index"):
                idxs = [i for i, k in enumerate(self.tmodel) if k == key and i not in used_idx]
                if idxs:
                    i = idxs[0]
                else:
                    i = self.call("track_wire", self.b.track_wire, w.wire)
                    self.tmodel.append(key)
                    if i != len(self.tmodel) - 1:
                        raise Discard("track_wire:index")
                used_idx.add(i)
                args.append(i)
            else:
                args.append(w.wire)
        com = T().ops.Command(op, args)
        n = self.call(f"add:{name}", self.b.add, com) if how == 1 else self.call(f"extend:{name}", self.b.extend, com)[0]
        for pos, a in enumerate(args):
            if isinstance(a, int):
                self.tmodel[a] = (n.idx, pos)
                self.sim.ctx.probe("tracked_index_command")
        self.nodes.append(n)
        self.dep_local(ins, n.idx)
        self.sim.handle(n, len(out_tys), f"add_op:{name}")
        return self.add_out(n, out_tys)

    def dep_local(self, ins, idx):
        for w in ins:
            if w.owner is self:
                self.sim.dep(self, w.node_idx, idx)

    def synth(self, ty):
        t = T()
        ch = self.sim.ctx.ch
        if ty == t.Q:
            return self.add_op(t.QOPS["QAlloc"](), [], [t.Q], opname="QAlloc")[0]
        if constable(ty):
            return self.load_const(self.sim.const_value(ty), ty)
        assert isinstance(ty, t.tys.Sum)
        rows = ty.variant_rows
        ok = [k for k, r in enumerate(rows) if all(synthesizable(x) for x in r)]
        k = ok[ch.draw(len(ok), "synth-variant")]
        parts = [self.find(x) for x in rows[k]]
        if len(rows) == 1 and ch.coin(1, 2, "tuple-via-maketuple"):
            return self.add_op(t.ops.MakeTuple(), parts, [ty], opname="MakeTuple")[0]
        return self.add_op(t.ops.Tag(k, ty), parts, [ty], opname="Tag")[0]

    def load_const(self, value, ty):
        ch = self.sim.ctx.ch
        # const parent: local region, an enclosing dataflow region, or the module root
        parents = [None]
        a = self.parent
        while a is not None:
            if getattr(a, "const_parent_ok", True):
                parents.append(a.b.parent_node)
            a = a.parent
        if self.sim.module is not None:
            parents.append(self.sim.hugr.root)
        # a Const is a scoped definition and may also sit directly under an enclosing CFG node
        a = self
        while a is not None:
            if getattr(a, "cfg", None) is not None and self.sim.features.get("const_under_cfg", True):
                parents.append(a.cfg.b.parent_node)
                break
            a = a.parent
        existing = [c for c in self.sim.consts if c[1] == ty and c[2] in [p.idx if p is not None else self.b.parent_node.idx for p in parents]]
        if existing and ch.coin(1, 3, "reload-const"):
            c = existing[ch.draw(len(existing), "which-const")]
            n = self.call("load:node", self.b.load, c[0])
            self.sim.ctx.probe("const_loaded_again")
        else:
            p = parents[ch.draw(len(parents), "const-parent")]
            if p is None:
                n = self.call("load:value", self.b.load, value)
                pidx = self.b.parent_node.idx
            else:
                n = self.call("load:value@parent", self.b.load, value, p)
                pidx = p.idx
                self.sim.ctx.probe("const_in_outer_scope")
                if isinstance(self.sim.hugr[p].op, T().ops.CFG):
                    self.sim.ctx.probe("const_under_cfg")
            # the Const node is whatever feeds the LoadConst's static input (where it was put is for the oracles to judge)
            srcs = [q.node for q in self.sim.hugr.linked_ports(n.inp(0))]
            if srcs and isinstance(self.sim.hugr[srcs[0]].op, T().ops.Const):
                cn = srcs[0]
                par = self.sim.hugr[cn].parent
                if par is not None and par.idx != pidx:
                    self.sim.ctx.probe("const_not_where_the_program_put_it")
                    pidx = par.idx
                self.sim.consts.append((cn, ty, pidx))
        self.nodes.append(n)
        self.sim.handle(n, 1, "load")
        return self.add_out(n, [ty])[0]

    def discharge(self, w):
        """Consume a linear wire legally."""
        t = T()
        w.used = True
        ty = w.ty
        if ty == t.Q:
            self.add_op(t.QOPS["QFree"](), [w], [], opname="QFree")
            return
        if isinstance(ty, t.tys.Sum) and len(ty.variant_rows) == 1:
            outs = self.add_op(t.ops.UnpackTuple(), [w], list(ty.variant_rows[0]), opname="UnpackTuple")
            for o in outs:
                if o.lin:
                    self.discharge(o)
            return
        if isinstance(ty, t.tys.Sum):
            # a conditional whose cases free the contents
            cond = self.call("add_conditional", self.b.add_conditional, w.wire)
            self.dep_local([w], cond.parent_node.idx)
            self.sim.ctx.probe("discharge_conditional")
            for k, row in enumerate(ty.variant_rows):
                case = self.call(f"add_case({k})", cond.add_case, k)
                ca = Actor(self.sim, "case", case, list(row), self, self.func_root, required=[])
                ca.region_node_idx = cond.parent_node.idx
                ca.close()
            self.nodes.append(cond.parent_node)
            return
        raise HarnessError(f"cannot discharge linear type {ty!r}")

    def close(self):
        """Goal-directed set_outputs."""
        sim = self.sim
        ch = sim.ctx.ch
        assert self.open_children == 0 and not self.closed
        if self.required is not None:
            outs = [self.find(ty) for ty in self.required]
            if any(o is None for o in outs):
                raise HarnessError(f"actor {self.id} cannot meet required outputs {self.required}")
        else:
            outs = []
            for w in list(self.pool):
                if w.lin and not w.used:
                    w.used = True
                    outs.append(w)
                elif not w.lin and ch.coin(1, 3, "out-copyable"):
                    outs.append(w)
            if self.sim.max_row is not None:
                for w in outs[self.sim.max_row:]:
                    if w.lin:
                        w.used = False
                outs = outs[:self.sim.max_row]
        for w in list(self.pool):
            if w.lin and not w.used:
                self.discharge(w)
        wires = [w.wire for w in outs]
        if self.kind == "dfg" and wires and self.tmodel is None and self.required is None \
                and sim.features.get("provisional_outputs", True) and ch.coin(1, 6, "outputs-set-provisionally-first"):
            # a second call of a method that is usually called once: the graph is first closed with no outputs at all
            # (complete as it stands), somebody may look at the HUGR, then the outputs are set for good
            self.call("set_outputs() provisionally", self.b.set_outputs)
            sim.ctx.probe("outputs_set_twice")
            if ch.coin(1, 2, "observe-between"):
                sim.observe()
        if self.kind == "block" and ch.coin(1, 2, "set_block_outputs") and wires:
            self.call("set_block_outputs", self.b.set_block_outputs, *wires)
        elif self.kind == "loop" and ch.coin(1, 2, "set_loop_outputs") and wires:
            self.call("set_loop_outputs", self.b.set_loop_outputs, *wires)
        else:
            self.call("set_outputs", self.b.set_outputs, *wires)
        self.nodes.append(self.b.output_node)
        if sim.features.get("late_ops", True) and self.tmodel is None and ch.coin(1, 10, "op-added-after-the-outputs-were-set"):
            # the order of independent calls is the client's: an operation whose results nobody uses may as well be
            # added after set_outputs (its inputs may come from an enclosing region)
            t = T()
            w = self.find(t.B)
            if w is not None:
                self.add_op(t.Not, [w], [t.B], None, "Not")
                sim.ctx.probe("op_added_after_outputs_set" + ("_nonlocal_input" if w.owner is not self else ""))
        self.closed = True
        out_tys = [w.ty for w in outs]
        if self.parent is not None and self.kind in ("dfg", "loop"):
            self.parent.open_children -= 1
        if self.on_close:
            self.on_close(self, out_tys)
        return out_tys


class CondCtl:
    """Controller actor for an open Conditional: opens cases at scheduler-chosen times."""

    def __init__(self, sim, owner, builder, sum_ty, other_tys, out_row, use_if=False):
        self.sim = sim
        self.id = sim.next_id()
        self.owner = owner
        self.b = builder
        self.sum_ty = sum_ty
        self.other = other_tys
        self.out_row = out_row
        self.pending = list(range(len(sum_ty.variant_rows)))
        self.open_cases = 0
        self.if_builder = None
        self.closed = False

    def runnable(self):
        return bool(self.pending)

    def step(self):
        sim = self.sim
        ch = sim.ctx.ch
        k = self.pending.pop(ch.draw(len(self.pending), "which-case"))
        if self.if_builder is not None and k == 0:
            case = self.call_else()
        else:
            case = self.owner.call(f"add_case({k})", self.b.add_case, k)
        inputs = [*self.sum_ty.variant_rows[k], *self.other]
        self.open_cases += 1
        a = Actor(sim, "case", case, inputs, self.owner, self.owner.func_root, required=list(self.out_row),
                  on_close=self.case_closed)
        a.region_node_idx = self.b.parent_node.idx
        sim.actors.append(a)

    def call_else(self):
        return self.owner.call("add_else", self.if_builder.add_else)

    def case_closed(self, actor, out_tys):
        self.open_cases -= 1
        if not self.pending and self.open_cases == 0:
            self.finish()

    def finish(self):
        self.closed = True
        node = self.b.parent_node
        self.owner.nodes.append(node)
        self.sim.handle(node, len(self.out_row), "conditional-closed")
        self.owner.add_out(node, self.out_row)
        self.owner.open_children -= 1


class CfgCtl:
    """Controller actor for an open CFG with a pre-drawn block graph."""

    def __init__(self, sim, owner, builder, in_row, out_row):
        self.sim = sim
        self.id = sim.next_id()
        self.owner = owner
        self.b = builder
        self.in_row = in_row
        self.out_row = out_row
        self.closed = False
        ch = sim.ctx.ch
        # shape: blocks 0..n-1 (0 = entry); succ[b] = list of targets (block index or "exit")
        shape = ch.draw(7, "cfg-shape")
        n = {0: 1 + ch.draw(3, "cfg-n"), 1: 4, 2: 3, 3: 3, 4: 2, 5: 2, 6: 6}[shape]
        if shape == 0:  # chain
            succ = {i: [i + 1] for i in range(n - 1)}
            succ[n - 1] = ["exit"]
        elif shape == 1:  # diamond 0 -> 1,2 -> 3 -> exit
            succ = {0: [1, 2], 1: [3], 2: [3], 3: ["exit"]}
        elif shape == 2:  # loop with back edge 0 -> 1 -> (1 | 2) -> exit
            succ = {0: [1], 1: [1, 2], 2: ["exit"]}
        elif shape == 3:  # multi-exit 0 -> (1 | exit), 1 -> (2 | exit), 2 -> exit
            succ = {0: [1, "exit"], 1: [2, "exit"], 2: ["exit"]}
        elif shape == 4:  # both branches of the entry lead to the same block (parallel control-flow edges), then both to exit
            succ = {0: [1, 1], 1: ["exit", "exit"]}
        elif shape == 5:  # four parallel edges into one block
            succ = {0: [1, 1, 1, 1], 1: ["exit"]}
        else:  # 4-way switch whose arms all jump to one join block
            succ = {0: [1, 2, 3, 4], 1: [5], 2: [5], 3: [5], 4: [5], 5: ["exit"]}
        self.n = n
        self.succ = succ
        self.shape = shape
        # rows: entry = cfg inputs; others drawn; exit = out_row
        self.rows = {0: list(in_row), "exit": list(out_row)}
        for i in range(1, n):
            self.rows[i] = sim.gen_row(2, linear_ok=True, synth_only=True)
        # dominators (by block index), entry dominates all
        self.dom = self._dominators()
        self.blocks = {}  # idx -> Actor
        self.to_open = list(range(n))
        self.to_branch = []  # (src, k) ready when src closed and target open
        self.branched = set()
        self.exit_done = False

    def _dominators(self):
        nodes = list(range(self.n))
        dom = {i: set(nodes) for i in nodes}
        dom[0] = {0}
        preds = {i: [p for p in nodes if i in self.succ[p]] for i in nodes}
        changed = True
        while changed:
            changed = False
            for i in nodes[1:]:
                ps = [dom[p] for p in preds[i]]
                new = ({i} | set.intersection(*ps)) if ps else {i}
                if new != dom[i]:
                    dom[i] = new
                    changed = True
        return dom

    def block_required(self, i):
        """Output row of block i: Sum(variants) + common suffix."""
        targets = [self.rows[t] for t in self.succ[i]]
        # longest common suffix
        k = 0
        while all(len(r) > k for r in targets) and all(r[len(r) - 1 - k] == targets[0][len(targets[0]) - 1 - k] for r in targets):
            k += 1
        ch = self.sim.ctx.ch
        k = ch.draw(k + 1, "cfg-common") if k and not ch.coin(2, 3, "cfg-max-common") else k
        other = targets[0][len(targets[0]) - k:] if k else []
        variants = [r[:len(r) - k] for r in targets]
        return mk_sum(variants), other

    def runnable(self):
        return bool(self.to_open) or bool(self._ready_branches())

    def _ready_branches(self):
        out = []
        for i, a in self.blocks.items():
            if a.closed:
                for k, t in enumerate(self.succ[i]):
                    if (i, k) not in self.branched and (t == "exit" or t in self.blocks):
                        out.append((i, k))
        return out

    def step(self):
        sim = self.sim
        ch = sim.ctx.ch
        ready = self._ready_branches()
        opts = (["open"] if self.to_open else []) + (["branch"] if ready else [])
        what = opts[ch.draw(len(opts), "cfg-step")]
        if what == "open":
            # entry first is not required by the API: any order
            i = self.to_open.pop(ch.draw(len(self.to_open), "which-block"))
            via_succ = None
            if i != 0:
                # add_successor needs a closed predecessor with an unbranched port to i
                cands = [(p, k) for p, a in self.blocks.items() if a.closed
                         for k, t in enumerate(self.succ[p]) if t == i and (p, k) not in self.branched]
                if cands and ch.coin(1, 2, "add_successor"):
                    via_succ = cands[ch.draw(len(cands), "succ-of")]
            if i == 0:
                blk = self.owner.call("add_entry", self.b.add_entry)
            elif via_succ:
                p, k = via_succ
                blk = self.owner.call("add_successor", self.b.add_successor, self.blocks[p].b.parent_node.out(k))
                self.branched.add((p, k))
                sim.ctx.probe("add_successor")
            else:
                blk = self.owner.call("add_block", self.b.add_block, *self.rows[i])
            sum_ty, other = self.block_required(i)
            dom_vis = [self.blocks[d] for d in sorted(self.dom[i]) if d != i and d in self.blocks]
            a = Actor(sim, "block", blk, list(self.rows[i]), self.owner, self.owner.func_root,
                      required=[sum_ty, *other], on_close=self.block_closed, dom_visible=dom_vis)
            a.cfg = self
            a.block_index = i
            a.region_node_idx = self.b.parent_node.idx
            self.blocks[i] = a
            sim.actors.append(a)
        else:
            i, k = ready[ch.draw(len(ready), "which-branch")]
            t = self.succ[i][k]
            src = self.blocks[i].b.parent_node.out(k)
            if t == "exit":
                if ch.coin(1, 2, "branch-to-exit-node"):
                    self.owner.call("branch(exit)", self.b.branch, src, self.b.exit)
                else:
                    self.owner.call("branch_exit", self.b.branch_exit, src)
                self.exit_done = True
            else:
                self.owner.call("branch", self.b.branch, src, self.blocks[t].b.parent_node)
            self.branched.add((i, k))
        self.maybe_finish()

    def block_closed(self, actor, out_tys):
        self.maybe_finish()

    def maybe_finish(self):
        if self.closed or self.to_open:
            return
        if not all(a.closed for a in self.blocks.values()):
            return
        if any((i, k) not in self.branched for i in self.blocks for k in range(len(self.succ[i]))):
            return
        self.closed = True
        node = self.b.parent_node
        self.owner.nodes.append(node)
        self.sim.handle(node, len(self.out_row), "cfg-closed")
        self.owner.add_out(node, self.out_row)
        self.owner.open_children -= 1


class BuilderSim:
    """World for engine B."""

    def __init__(self, ctx, root_kind=None, features=None, max_steps=60, root_inputs=None):
        self.ctx = ctx
        self.root_inputs = root_inputs
        self._id = 0
        self.actors = []  # Actor | CondCtl | CfgCtl
        self.consts = []  # (node, type, parent_idx)
        self.handles = []  # (handle, expected output count, producer)
        self.deps = {}
        self.scratch = []
        self.detached = []
        self.meta = {}
        self.funcs = []  # dict(node, name, sig(PolyFuncType), params)
        self.module = None
        self.max_steps = max_steps
        self.features = features or {}
        self.max_row = None
        ch = ctx.ch
        t = T()
        _EMPTY_ROW_SUMS[0] = ch if self.features.get("empty_row_sums", ch.coin(1, 2, "f-empty-row-sums")) else None
        self.max_depth = 1 + ch.draw(4, "max-depth")
        self.max_row_width = ch.draw(4, "max-row")
        self.fresh_handles = self.features.get("fresh_handles", True) and ch.coin(1, 4, "f-fresh-handles")
        self.respell_wires = self.features.get("respell_wires", True) and ch.coin(1, 3, "f-respell-wires")
        # an observer: a read-only client that serialises / lists the HUGR between steps of the builders (the document is
        # thrown away; an unfinished container makes the serialiser raise, which the observer ignores)
        self.observer = self.features.get("observer", True) and ch.coin(1, 3, "f-observer")
        # size class (swarm): some programs are several times longer, nest deeper and use wide rows
        self.large = bool(self.features.get("large", root_inputs is None and ch.coin(1, 25, "size-class-large")))
        if self.large:
            self.max_steps = self.max_steps * 3 + 80
            self.max_depth = 5 + ch.draw(4, "max-depth-large")
            self.max_row_width = 6 + ch.draw(6, "max-row-large")
            ctx.probe("large_program")
        kinds = ["module", "dfg", "function", "cfg", "conditional", "tailloop", "tracked"]
        self.root_kind = root_kind or kinds[ch.weighted([8, 2, 2, 1, 1, 1, 1], "root-kind")]
        self.root_actor = None
        self.root_ctl = None
        self._open_root()

    def next_id(self):
        self._id += 1
        return self._id

    # ---- per-region dependency graph (keeps every dataflow region acyclic by construction) ------
    def dep(self, region, a_idx, b_idx):
        if a_idx is None or b_idx is None:
            return
        self.deps.setdefault(region.id, {}).setdefault(a_idx, set()).add(b_idx)

    def reaches(self, region, a_idx, b_idx):
        g = self.deps.get(region.id, {})
        seen, stack = {a_idx}, [a_idx]
        while stack:
            x = stack.pop()
            if x == b_idx:
                return True
            for y in g.get(x, ()):
                if y not in seen:
                    seen.add(y)
                    stack.append(y)
        return False

    # ---- descriptions for the event log (no identity, no hash order) --------------------------
    def describe(self, a, kw):
        out = []
        for x in a:
            out.append(self._d(x))
        for k in sorted(kw):
            out.append(f"{k}={self._d(kw[k])}")
        return out

    def _d(self, x):
        t = T()
        try:
            from hugr.hugr.node_port import Node, OutPort
        except ImportError:  # pragma: no cover
            return repr(x)[:80]
        if isinstance(x, OutPort):
            return f"w{x.node.idx}.{x.offset}"
        if isinstance(x, Node):
            return f"n{x.idx}"
        if hasattr(x, "parent_node") and hasattr(x, "hugr"):
            return f"builder@n{x.parent_node.idx}"
        if isinstance(x, (list, tuple)):
            return [self._d(y) for y in x]
        if isinstance(x, RowArg):
            return [x.form, [self._d(y) for y in x.items]]
        return repr(x)[:100]

    def describe_ret(self, r):
        return self._d(r) if r is not None else None

    def handle(self, node, n_out, producer):
        self.handles.append((node, n_out, producer))

    # ---- type and value generation -------------------------------------------------------------
    def gen_type(self, depth=0, linear_ok=True, synth_only=False):
        ch = self.ctx.ch
        t = T()
        w = [6, 4 if linear_ok else 0, 3, 2, 1, 1, 2 if depth < 2 else 0, 2 if depth < 2 else 0, 1 if depth < 2 else 0,
             2 if (self.features.get("collections") and depth < 2) else 0]
        k = ch.weighted(w, "type")
        if k == 9:
            elem = self.gen_type(depth + 1, linear_ok=False)
            if not constable(elem):
                elem = t.int_t(5)
            return t.Array(elem, 1 + ch.draw(3, "array-n")) if ch.coin(1, 2, "array") else t.List(elem)
        if k == 0:
            return t.B
        if k == 1:
            return t.Q
        if k == 2:
            return t.int_t(ch.pick([5, 3, 6, 0], "int-width"))
        if k == 3:
            return t.FLOAT_T
        if k == 4:
            if _EMPTY_ROW_SUMS[0] is not None and ch.coin(1, 2, "empty-row-general"):
                self.ctx.probe("general_sum_with_empty_rows")
                return ch.pick([t.tys.Tuple(), t.tys.Option(), t.tys.Either([], []), t.tys.Sum([[], [], []])], "which")
            return t.tys.Unit if ch.coin(1, 2, "unit") else t.tys.UnitSum(3)
        if k == 5:
            return t.STRING_T
        if k == 6:
            n = 1 + ch.draw(3, "tuple-n")
            return t.tys.Tuple(*[self.gen_type(depth + 1, linear_ok, synth_only) for _ in range(n)])
        if k == 7:
            n = 1 + ch.draw(2, "opt-n")
            inner = [self.gen_type(depth + 1, linear_ok, synth_only) for _ in range(n)]
            return t.tys.Option(*inner) if ch.coin(1, 2, "option") else t.tys.Either(inner, [self.gen_type(depth + 1, linear_ok, synth_only)])
        rows = [[self.gen_type(depth + 1, linear_ok, synth_only) for _ in range(ch.draw(3, "row-n"))] for _ in range(2 + ch.draw(2, "sum-n"))]
        return mk_sum(rows)

    def gen_row(self, maxn, linear_ok=True, synth_only=True):
        n = self.ctx.ch.draw(min(maxn * 4 if self.large else maxn, self.max_row_width) + 1, "row-len")
        return [self.gen_type(0, linear_ok, synth_only) for _ in range(n)]

    def const_value(self, ty):
        ch = self.ctx.ch
        t = T()
        if isinstance(ty, t.tys.UnitSum) or (isinstance(ty, t.tys.Sum) and all(len(r) == 0 for r in ty.variant_rows)):
            n = len(ty.variant_rows)
            k = ch.draw(n, "unit-tag")
            if n == 2:
                return t.val.TRUE if k else t.val.FALSE
            return t.val.UnitSum(k, n)
        if isinstance(ty, t.tys.Sum):
            rows = ty.variant_rows
            if len(rows) == 1:
                vs = [self.const_value(x) for x in rows[0]]
                if ch.coin(2, 3, "tuple-sugar"):
                    return t.val.Tuple(*vs)
                return t.val.Sum(0, ty, vs)
            k = ch.draw(len(rows), "const-tag")
            vs = [self.const_value(x) for x in rows[k]]
            if len(rows) == 2 and not rows[0] and k == 1 and ch.coin(1, 2, "some-sugar"):
                return t.val.Some(*vs)
            if len(rows) == 2 and not rows[0] and k == 0 and ch.coin(1, 2, "none-sugar"):
                return t.val.None_(*rows[1])
            return t.val.Sum(k, ty, vs)
        if ty == t.FLOAT_T:
            return t.FloatVal(ch.pick([0.0, 1.5, -2.25, 1e300, float("inf"), float("nan")], "float"))
        if ty == t.STRING_T:
            return t.StringVal(ch.pick(["", "a", "né☃", 'q"\\'], "string"))
        if isinstance(ty, t.tys.ExtType) and ty.type_def.name == "array":
            return t.ArrayVal([self.const_value(ty.ty) for _ in range(ty.size)], ty.ty)
        if isinstance(ty, t.tys.ExtType) and ty.type_def.name == "List":
            return t.ListVal([self.const_value(ty.ty) for _ in range(ch.draw(3, "list-n"))], ty.ty)
        if isinstance(ty, t.tys.ExtType) and ty.type_def.name == "int":
            w = ty.args[0].n
            return t.IntVal(ch.draw(min(2 ** (2 ** w), 1000), "int-val"), w)
        raise HarnessError(f"no constant for {ty!r}")

    # ---- root ---------------------------------------------------------------------------------
    def _open_root(self):
        ch = self.ctx.ch
        t = T()
        from hugr.build.cfg import Cfg
        from hugr.build.cond_loop import Conditional, TailLoop
        from hugr.build.dfg import Dfg, Function
        from hugr.build.function import Module
        from hugr.build.tracked_dfg import TrackedDfg

        rk = self.root_kind
        self.ctx.ev(0, "root", rk)
        if rk == "module":
            self.module = Module()
            self.hugr = self.module.hugr
            self.root_ctl = ModuleCtl(self)
            self.actors.append(self.root_ctl)
            return
        ri = self.root_inputs
        ins = list(ri) if (ri is not None and rk in ("dfg", "cfg")) else self.gen_row(3)
        if rk in ("dfg", "tracked"):
            b = Dfg(*ins) if rk == "dfg" else TrackedDfg(*ins, track_inputs=ch.coin(1, 2, "track-inputs"))
            a = Actor(self, "dfg-root", b, ins, None, None)
            if rk == "tracked":
                a.tmodel = [(w.out_port().node.idx, w.out_port().offset) for w in b.tracked]
        elif rk == "function":
            b = Function("main", ins)
            a = Actor(self, "func", b, ins, None, None)
        elif rk == "tailloop":
            ji, rest = (list(ri[0]), list(ri[1])) if ri is not None else (self.gen_row(2), self.gen_row(2))
            jo = self.gen_row(2)
            b = TailLoop(ji, rest)
            a = Actor(self, "loop", b, [*ji, *rest], None, None, required=[mk_sum([ji, jo]), *rest])
        elif rk == "conditional":
            if ri is not None:
                sum_ty, other = ri[0], list(ri[1])
            else:
                rows = [self.gen_row(2) for _ in range(1 + ch.draw(3, "n-cases"))]
                sum_ty = mk_sum(rows)
                other = self.gen_row(2)
            out = self.gen_row(2)
            b = Conditional(sum_ty, other)
            self.root_builder = b
            self.hugr = b.hugr
            root = RootOwner(self, b)
            ctl = CondCtl(self, root, b, sum_ty, other, out)
            root.open_children = 1
            self.actors.append(ctl)
            self.root_actor = root
            return
        elif rk == "cfg":
            out = self.gen_row(2)
            b = Cfg(*ins)
            self.root_builder = b
            self.hugr = b.hugr
            root = RootOwner(self, b)
            ctl = CfgCtl(self, root, b, ins, out)
            root.open_children = 1
            self.actors.append(ctl)
            self.root_actor = root
            return
        self.hugr = b.hugr
        self.root_actor = a
        self.actors.append(a)

    # ---- scheduling --------------------------------------------------------------------------------
    def runnable(self):
        out = []
        for a in self.actors:
            if isinstance(a, Actor):
                if not a.closed:
                    out.append(a)
            elif a.runnable():
                out.append(a)
        return out

    def run(self):
        """Drive all actors to completion under the seeded scheduler.  Returns True when complete."""
        ctx = self.ctx
        ch = ctx.ch
        steps = 0
        hard_cap = self.max_steps * 6 + 200
        while True:
            rs = self.runnable()
            if not rs:
                break
            steps += 1
            if steps > hard_cap:
                raise HarnessError("engine B did not terminate")
            drain = steps > self.max_steps
            a = rs[ch.draw(len(rs), "sched")]
            ctx.sched.append(a.id)
            if self.fault_hook is not None and self.fault_hook(self, a, steps):
                return False
            if self.features.get("refusals") and ch.coin(1, 12, "refused-request"):
                self.refused_request(a)
            if isinstance(a, Actor):
                self.actor_step(a, drain)
            else:
                a.step()
            # a cheap abstract state of the world, for the evidence's "distinct states" measure
            ctx.states.append(f"{len(self.hugr)}:{sum(1 for x in self.actors if not getattr(x, 'closed', False))}:{a.id}")
            if self.observer and ch.coin(1, 5, "observe"):
                self.observe()
            if self.after_step is not None:
                self.after_step(self)
        return True

    def observe(self):
        """Read-only queries in the middle of the history: whatever they compute (or memoise) must not change what the
        builders do next or what is serialised at the end."""
        h = self.hugr
        try:
            h.to_json()
            out = "document"
        except Exception as e:  # noqa: BLE001  (IncompleteOp and friends while builders are open)
            out = type(e).__name__
        try:
            n = sum(1 for _ in h.links()) + sum(len(h.children(x)) for x, _ in h.nodes())
        except Exception as e:  # noqa: BLE001
            n = type(e).__name__
        self.ctx.ev("observer", "to_json/links/children", None, f"{out}:{n}")
        self.ctx.probe("observer_serialised_mid_history" if out == "document" else "observer_serialise_refused")

    after_step = None
    fault_hook = None

    def refused_request(self, a):
        """A request the builders refuse *before changing anything* (on the tree as it stands); the caller catches the
        error and the program goes on.  Nothing may be left behind that makes the rest of the program misbehave."""
        ch = self.ctx.ch
        t = T()
        from hugr.build.tracked_dfg import TrackedDfg
        opts = []
        if isinstance(a, CondCtl):
            n = len(a.sum_ty.variant_rows)
            opts.append(("add_case(out of range)", lambda: a.b.add_case(n + 1)))
            built = [k for k in range(n) if k not in a.pending]
            if built:
                opts.append(("add_case(built)", lambda: a.b.add_case(built[0])))
            if a.pending:
                opts.append(("leave context with unbuilt cases", lambda: a.b.__exit__(None, None, None)))
        if isinstance(a, Actor):
            polys = [f for f in self.funcs if f["sig"] is not None and f["sig"].params]
            if polys:
                f = polys[0]
                opts.append(("load_function(poly) without instantiation", lambda: a.b.load_function(f["node"])))
                opts.append(("call(poly) without instantiation", lambda: a.b.call(f["node"])))
            if self.consts:
                c = self.consts[0][0]
                opts.append(("call(<Const>)", lambda: a.b.call(c)))
            if not isinstance(a.b, TrackedDfg):
                opts.append(("add(Noop(0)) in an untracked builder", lambda: a.b.add(t.ops.Noop()(0))))
            else:
                bad = len(a.b.tracked) + 3
                opts.append(("add(Noop(untracked index))", lambda: a.b.add(t.ops.Noop()(bad))))
                opts.append(("untrack_wire(untracked index)", lambda: a.b.untrack_wire(bad)))
            if a.kind == "func" and a.required is not None and a.open_children == 0 and not any(w.var for w in a.pool):
                opts.append(("Function.set_outputs() with no wires although outputs are declared", (lambda: a.b.set_outputs()) if a.required else None))
                cop = [w for w in a.pool if not w.lin]
                if cop:
                    # as many wires as declared, at least one of another type (copyable wires: nothing is consumed)
                    wrong = [next((w for w in cop if w.ty != ty), None) for ty in a.required] + ([cop[0]] if not a.required else [])
                    if wrong and all(w is not None for w in wrong):
                        opts.append(("Function.set_outputs(wires of other types than declared)", lambda: a.b.set_outputs(*[w.wire for w in wrong])))
        opts = [o for o in opts if o[1] is not None]
        if not opts:
            return
        name, fn = opts[ch.draw(len(opts), "which-refusal")]
        try:
            fn()
            outcome = "returned"  # judged by C13, not here; the program is no longer well-formed
        except Exception as e:  # noqa: BLE001
            outcome = type(e).__name__
        self.ctx.ev(getattr(a, "id", 0), "REFUSED:" + name, None, outcome, fault="refused-request")
        self.ctx.fault("refused_request_then_continue")
        if outcome == "returned":
            raise Discard("refused-request-was-accepted")

    def actor_step(self, a: Actor, drain: bool):
        ch = self.ctx.ch
        t = T()
        can_close = a.open_children == 0
        if drain:
            if can_close:
                a.close()
            else:
                self.ctx.ev(a.id, "wait")
            return
        deep = a.depth >= self.max_depth
        f = self.features
        w_close = 3 if can_close else 0
        weights = [
            8,  # leaf op
            3,  # load const
            0 if deep else 3,  # nested dfg
            0 if deep or not f.get("cond", True) else 2,  # conditional / if
            0 if deep or not f.get("loop", True) else 1,  # tail loop
            0 if deep or not f.get("cfg", True) else 1,  # cfg
            2 if len(a.nodes) >= 2 else 0,  # state order
            2 if (f.get("calls", True) and any(self.in_scope(x, a) for x in self.funcs)) else 0,  # call / load_function
            w_close,
            0 if deep or not f.get("insert", False) else 1,  # insert a detached builder
            1 if f.get("holes", True) else 0,  # scratch node added now, deleted later: freed indices get reused
            0 if deep or not f.get("local_funcs", True) or not f.get("calls", True) else 1,  # a function defined inside this region
        ]
        k = ch.weighted(weights, "actor-step")
        [self.step_leaf, self.step_load, self.step_nested, self.step_cond, self.step_loop, self.step_cfg,
         self.step_order, self.step_call, lambda a: a.close(), self.step_insert, self.step_scratch, self.step_local_func][k](a)

    # ---- steps ------------------------------------------------------------------------------------------
    def maybe_meta(self):
        ch = self.ctx.ch
        if self.features.get("meta", True) and ch.coin(1, 5, "meta"):
            import copy
            return {"m": copy.deepcopy(ch.pick([1, "s", [1, {"x": None}], {"k": "né"}, 2 ** 60, 1.5, True, "a<b & c>d"], "meta-val"))}
        return None

    def step_leaf(self, a: Actor):
        ch = self.ctx.ch
        t = T()
        cands = []
        has = a.can_find
        if has(t.B):
            cands += ["Not", "Triple"]
            if self.features.get("extops", True):
                cands.append("Fanout")
        if has(t.I5):
            cands.append("DivMod")
        cands += ["H", "CX", "Measure", "QAllocFree"]
        if has(t.FLOAT_T):
            cands.append("Rz")
        if self.features.get("unregistered") and has(t.B):
            cands.append("uop")
        pool_live = a.live()
        if a.live(novar=False):
            cands.append("Noop")
        if pool_live:
            cands += ["MakeTuple", "Tag"]
        if any(isinstance(w.ty, t.tys.Sum) and len(w.ty.variant_rows) == 1 and w.ty.variant_rows[0] for w in pool_live):
            cands.append("UnpackTuple")
        if any(isinstance(w.ty, t.tys.FunctionType) for w in pool_live):
            cands.append("CallIndirect")
        op = ch.pick(cands, "leaf-op")
        md = self.maybe_meta()
        if self.features.get("extops", True) and op in ("H", "CX", "Measure", "QAllocFree", "Rz", "Triple") and ch.coin(1, 2, "as-ExtOp"):
            # the definition-backed form of the same operation (hugr.ext API), not the opaque Custom form
            self.ctx.probe("ext_api_op")
            name = "QAlloc" if op == "QAllocFree" else op
            sig = t.QOPS[name]().signature
            xop = t.qext(name)
            if self.features.get("second_ext") and ch.coin(1, 3, "from-second-extension"):
                # one definition object, two extensions: some client asked the first extension's definition for its
                # name (rendering, export), afterwards the definition is added to a second extension (which keeps a
                # copy); operations instantiated from that copy belong to the second extension only
                from semver import Version
                from hugr import ext as hext
                d = t.QEXT.get_op(name)
                self.ctx.ev("query", "qualified_name", name, d.qualified_name())
                if getattr(self, "q2", None) is None:
                    self.q2 = hext.Extension("verif.q2", Version(0, 1, 0))
                d2 = self.q2.operations.get(name) or self.q2.add_op_def(d)
                xop = d2.instantiate([], t.tys.FunctionType(list(sig.input), list(sig.output)))
                self.ctx.probe("definition_shared_by_two_extensions")
            a.add_op(xop, [a.find(x) for x in sig.input], list(sig.output), md, name)
            return
        if op == "Not":
            a.add_op(t.Not, [a.find(t.B)], [t.B], md, "Not")
        elif op == "Fanout":
            n = ch.draw(4, "fanout-n") + (ch.draw(10, "fanout-n-large") if self.large else 0)
            if ch.coin(1, 8, "wide-fanout"):
                n += 6 + ch.draw(8, "fanout-n-wide")
                self.ctx.probe("op_with_9_ports_or_more")
            a.add_op(t.fanout(n), [a.find(t.B)], [t.B] * n, md, "Fanout")
            self.ctx.probe("row_polymorphic_ext_op")
            if n != 1:
                self.ctx.probe("multi_output_op")
        elif op == "Triple":
            a.add_op(t.QOPS["Triple"](), [a.find(t.B)], [t.B] * 3, md, "Triple")
            self.ctx.probe("multi_output_op")
        elif op == "DivMod":
            a.add_op(t.DivMod, [a.find(t.I5), a.find(t.I5)], [t.I5, t.I5], md, "DivMod")
            self.ctx.probe("multi_output_op")
        elif op == "H":
            a.add_op(t.QOPS["H"](), [a.find(t.Q)], [t.Q], md, "H")
        elif op == "CX":
            a.add_op(t.QOPS["CX"](), [a.find(t.Q), a.find(t.Q)], [t.Q, t.Q], md, "CX")
        elif op == "Measure":
            a.add_op(t.QOPS["Measure"](), [a.find(t.Q)], [t.Q, t.B], md, "Measure")
        elif op == "QAllocFree":
            a.add_op(t.QOPS["QAlloc"](), [], [t.Q], md, "QAlloc")
        elif op == "uop":
            a.add_op(t.UOP(), [a.find(t.B)], [t.UT], md, "uop")
            self.ctx.probe("unregistered_extension_op")
        elif op == "Rz":
            a.add_op(t.QOPS["Rz"](), [a.find(t.Q), a.find(t.FLOAT_T)], [t.Q], md, "Rz")
        elif op == "Noop":
            w = ch.pick(a.live(novar=False), "noop-arg")
            if w.lin:
                w.used = True
            outs = a.add_op(t.ops.Noop(), [w], [w.ty], md, "Noop")
            if w.var:
                outs[0].var = True  # a reserved / variable-typed wire stays reserved through the identity
        elif op == "MakeTuple":
            n = 1 + ch.draw(min(3, len(pool_live)), "mt-n")
            ws = []
            for _ in range(n):
                live = a.live()
                if not live:
                    break
                w = ch.pick(live, "mt-arg")
                if w.lin:
                    w.used = True
                ws.append(w)
            a.add_op(t.ops.MakeTuple(), ws, [t.tys.Tuple(*[w.ty for w in ws])], md, "MakeTuple")
        elif op == "UnpackTuple":
            c = [w for w in pool_live if isinstance(w.ty, t.tys.Sum) and len(w.ty.variant_rows) == 1 and w.ty.variant_rows[0]]
            w = ch.pick(c, "ut-arg")
            if w.lin:
                w.used = True
            a.add_op(t.ops.UnpackTuple(), [w], list(w.ty.variant_rows[0]), md, "UnpackTuple")
            self.ctx.probe("multi_output_op")
        elif op == "Tag":
            w = ch.pick(pool_live, "tag-arg")
            if w.lin:
                w.used = True
            other_rows = [self.gen_row(2) for _ in range(1 + ch.draw(2, "tag-others"))]
            k = ch.draw(len(other_rows) + 1, "tag-pos")
            rows = other_rows[:k] + [[w.ty]] + other_rows[k:]
            sty = mk_sum(rows)
            sugar = ch.draw(3, "tag-sugar")
            if len(rows) == 2 and sugar == 1 and isinstance(sty, t.tys.Sum) and not isinstance(sty, t.tys.UnitSum):
                e = t.tys.Either(rows[0], rows[1])
                opx = t.ops.Right(e) if k == 1 else t.ops.Left(e)
                a.add_op(opx, [w], [e], md, "Left/Right")
            elif len(rows) == 2 and k == 1 and not rows[0] and sugar == 2:
                a.add_op(t.ops.Some(w.ty), [w], [t.tys.Option(w.ty)], md, "Some")
            else:
                a.add_op(t.ops.Tag(k, sty), [w], [sty], md, "Tag")
        elif op == "CallIndirect":
            c = [w for w in pool_live if isinstance(w.ty, t.tys.FunctionType)]
            fw = ch.pick(c, "ci-fn")
            if not all(a.can_find(x) for x in fw.ty.input):
                self.ctx.ev(a.id, "noop")
                return
            args = [a.find(x) for x in fw.ty.input]
            a.add_op(t.ops.CallIndirect(), [fw, *args], list(fw.ty.output), md, "CallIndirect")
            self.ctx.probe("call_indirect")

    def step_load(self, a: Actor):
        ty = self.gen_type(0, linear_ok=False)
        if not constable(ty):
            ty = T().B
        a.load_const(self.const_value(ty), ty)

    def pick_args(self, a: Actor, maxn):
        """Pick up to maxn live wires from the actor's pool (consuming linear ones), maybe outer copyable ones."""
        ch = self.ctx.ch
        n = ch.draw(maxn + 1, "n-args")
        ws = []
        for _ in range(n):
            live = a.live()
            outer = a.visible_outer() if (not live or ch.coin(1, 4, "arg-outer")) else []
            outer = [w for w in outer if not any(w in blk.pool for blk in a.dom_visible)]
            if outer:
                w = ch.pick(outer, "arg-outer-w")
                a.use_outer(w)
            elif live:
                w = ch.pick(live, "arg-w")
            else:
                break
            if w.lin:
                w.used = True
            ws.append(w)
        return ws

    def step_nested(self, a: Actor):
        ws = self.pick_args(a, 3)
        b = a.call("add_nested", a.b.add_nested, *[w.wire for w in ws])
        a.open_children += 1
        a.nodes.append(b.parent_node)
        a.dep_local(ws, b.parent_node.idx)

        if self.ctx.ch.coin(1, 3, "builder-used-as-a-node-early"):
            # the builder object is itself a node handle (ToNode): it is used as one before its outputs are set ...
            b.to_node()
            b.out(0)
            self.ctx.probe("builder_used_as_node_before_set_outputs")

        def closed(child, out_tys):
            self.handle(child.b.parent_node, len(out_tys), "nested-dfg-closed")
            # ... and again afterwards, when it must know its outputs like the handle the parent holds
            self.handle(child.b.to_node(), len(out_tys), "nested-dfg-builder-as-node")
            a.add_out(child.b.parent_node, out_tys)
        na = Actor(self, "dfg", b, [w.ty for w in ws], a, a.func_root, on_close=closed)
        na.region_node_idx = b.parent_node.idx
        self.actors.append(na)
        self.ctx.probe("nested_dfg")

    def step_cond(self, a: Actor):
        ch = self.ctx.ch
        t = T()
        # a sum-typed wire: existing or synthesised
        sums = [w for w in a.pool if isinstance(w.ty, t.tys.Sum) and len(w.ty.variant_rows) >= 1 and not (w.lin and w.used)
                and not w.var]  # (never a wire reserved for a required output)
        if sums and ch.coin(2, 3, "cond-existing-sum"):
            sw = ch.pick(sums, "cond-sum")
        else:
            rows = [self.gen_row(2) for _ in range(1 + ch.draw(3, "n-cases"))]
            sty = mk_sum(rows)
            if not synthesizable(sty):
                sty = t.B
            sw = a.find(sty)
        if sw.lin:
            sw.used = True
        others = self.pick_args(a, 2)
        out_row = self.gen_row(2)
        use_if = sw.ty == t.B and ch.coin(1, 2, "use-if")
        args = [sw.wire, *[w.wire for w in others]]
        if use_if:
            if_b = a.call("add_if", a.b.add_if, *args)
            cond_b = if_b._parent_conditional()
        else:
            cond_b = a.call("add_conditional", a.b.add_conditional, *args)
        a.open_children += 1
        a.dep_local([sw, *others], cond_b.parent_node.idx)
        ctl = CondCtl(self, a, cond_b, sw.ty, [w.ty for w in others], out_row)
        if use_if:
            # the If builder *is* case 1, already open
            ctl.pending.remove(1)
            ctl.if_builder = if_b
            ctl.open_cases += 1
            ca = Actor(self, "case", if_b, [*sw.ty.variant_rows[1], *ctl.other], a, a.func_root, required=list(out_row),
                       on_close=ctl.case_closed)
            ca.region_node_idx = cond_b.parent_node.idx
            self.actors.append(ca)
            self.ctx.probe("if_else")
        self.actors.append(ctl)
        self.ctx.probe("conditional")

    def step_loop(self, a: Actor):
        ch = self.ctx.ch
        ji = self.pick_args(a, 2)
        rest = self.pick_args(a, 2)
        jo = self.gen_row(2)
        b = a.call("add_tail_loop", a.b.add_tail_loop, RowArg(ch, [w.wire for w in ji]), RowArg(ch, [w.wire for w in rest]))
        a.open_children += 1
        a.nodes.append(b.parent_node)
        a.dep_local([*ji, *rest], b.parent_node.idx)
        ji_t, rest_t = [w.ty for w in ji], [w.ty for w in rest]

        def closed(child, out_tys):
            self.handle(child.b.parent_node, len(jo) + len(rest_t), "tail-loop-closed")
            a.add_out(child.b.parent_node, [*jo, *rest_t])
        la = Actor(self, "loop", b, [*ji_t, *rest_t], a, a.func_root,
                   required=[mk_sum([ji_t, jo]), *rest_t], on_close=closed)
        la.region_node_idx = b.parent_node.idx
        self.actors.append(la)
        self.ctx.probe("tail_loop")

    def step_cfg(self, a: Actor):
        ws = self.pick_args(a, 2)
        out_row = self.gen_row(2)
        b = a.call("add_cfg", a.b.add_cfg, *[w.wire for w in ws])
        a.open_children += 1
        a.dep_local(ws, b.parent_node.idx)
        self.actors.append(CfgCtl(self, a, b, [w.ty for w in ws], out_row))
        self.ctx.probe("cfg")

    def step_local_func(self, a: Actor):
        """define_function with a parent inside a dataflow region (a FuncDefn is a scoped definition): callable from this
        region and everything nested in it, including its own body."""
        ch = self.ctx.ch
        t = T()
        self.nfuncs = getattr(self, "nfuncs", 0) + 1
        name = self.func_name(f"local{self.nfuncs}")
        ins, outs = self.gen_row(2), self.gen_row(2)
        fb = a.call("define_function(parent=region)", a.b.define_function, name, ins, outs, None, a.b.parent_node)
        body = Actor(self, "func", fb, ins, None, None, required=outs)
        body.def_site = a
        body.depth = a.depth + 1
        self.actors.append(body)
        a.open_children += 1  # the enclosing region waits for the body (its calls need a complete callee anyway)

        def done(actor, out_tys, a=a):
            a.open_children -= 1
        body.on_close = done
        self.funcs.append({"node": fb.parent_node, "name": name, "actor": body, "calls": 0, "poly_kind": None, "scope": a,
                           "sig": t.tys.PolyFuncType([], t.tys.FunctionType(ins, outs)), "callable": lambda: True})
        self.ctx.probe("function_local_to_a_region")

    def in_scope(self, f, a):
        sc = f.get("scope")
        if sc is None:
            return True
        x = a
        while x is not None:
            if x is sc:
                return True
            x = x.parent if x.parent is not None else getattr(x, "def_site", None)
        return False

    def func_name(self, base: str) -> str:
        """Function names are arbitrary strings (unique here through the counter in `base`)."""
        if not self.features.get("odd_names"):
            return base
        k = self.ctx.ch.weighted([4, 1, 1, 1, 1], "func-name-style")
        if k:
            self.ctx.probe("function_name_not_an_identifier")
        return [base, f"two words {base}", f"f\u00fcnf.\u03bb{base}", f"vec<T>::{base}&amp;\"q\"", base + "_" + "x" * 300][k]

    def step_scratch(self, a: Actor):
        """Graph-level edit in the middle of a builder program: add an unused constant definition, or delete one added
        earlier.  The HUGR stays valid (a Const is a scoped definition, unused it has no edges); the freed index is
        reused by whatever is created next, so children are no longer in index order and a child can have a smaller
        index than its parent."""
        ch = self.ctx.ch
        t = T()
        if self.features.get("stray_links") and ch.coin(1, 3, "stray-link"):
            # a link added by mistake beyond the signatures of both ends and deleted again: the link set is what it
            # was, only the stores' port counts keep the high-water mark
            cands = [n for n in a.nodes if n in self.hugr]
            if isinstance(a, Actor) and not a.closed and getattr(a.b, "output_node", None) is not None:
                cands.append(a.b.output_node)
            blocks = [n for n in self.hugr if type(self.hugr[n].op).__name__ == "DataflowBlock"]
            if blocks and ch.coin(1, 2, "stray-on-block"):
                src = dst = ch.pick(blocks, "stray-block")
                so, do = self.hugr.num_out_ports(src) + ch.draw(2, "stray-extra"), self.hugr.num_in_ports(dst) + 1
            elif len(cands) >= 2:
                src, dst = ch.pick(cands, "stray-src"), ch.pick(cands, "stray-dst")
                so, do = self.hugr.num_out_ports(src) + 1 + ch.draw(2, "stray-extra"), self.hugr.num_in_ports(dst) + 1 + ch.draw(2, "stray-extra")
            else:
                return
            a.call("add_link(stray)", self.hugr.add_link, src.out(so), dst.inp(do))
            a.call("delete_link(stray)", self.hugr.delete_link, src.out(so), dst.inp(do))
            self.ctx.fault("stray_link_added_and_deleted")
            return
        if self.scratch and ch.coin(1, 2, "scratch-delete"):
            n = self.scratch.pop(ch.draw(len(self.scratch), "which-scratch"))
            a.call("delete_node", self.hugr.delete_node, n)
            self.ctx.probe("index_hole_in_builder_program")
        else:
            n = a.call("add_const(scratch)", self.hugr.add_const, t.val.TRUE, a.b.parent_node)
            self.scratch.append(n)

    def step_insert(self, a: Actor):
        """Build a detached container (own Hugr, own interleaved sub-simulation) and attach it with insert_*."""
        ch = self.ctx.ch
        t = T()
        kind = ch.pick(["dfg", "cfg", "conditional", "tailloop"], "detached-kind")
        sub_feats = dict(self.features, insert=False, poly=False)  # calls: only functions local to a region exist in a detached builder
        if kind == "conditional":
            sums = [w for w in a.live() if isinstance(w.ty, t.tys.Sum) and len(w.ty.variant_rows) >= 1]
            sw = ch.pick(sums, "cond-sum") if sums and ch.coin(2, 3, "existing-sum") else a.find(t.B)
            if sw.lin:
                sw.used = True
            others = self.pick_args(a, 2)
            ws = [sw, *others]
            ri = (sw.ty, [w.ty for w in others])
        elif kind == "tailloop":
            ji, rest = self.pick_args(a, 2), self.pick_args(a, 2)
            ws = [*ji, *rest]
            ri = ([w.ty for w in ji], [w.ty for w in rest])
        else:
            ws = self.pick_args(a, 3)
            ri = [w.ty for w in ws]
        if any(w.var for w in ws):
            raise HarnessError("variable-typed wire passed to a detached builder")
        self.ctx.ev(a.id, "detached-builder", kind)
        again = [x for x in self.detached if x[0] == kind and x[1] == [repr(x_) for x_ in (ri if kind in ("dfg", "cfg") else [*ri[0:1], *ri[1]])]]
        if again and ch.coin(1, 2, "insert-same-source-again"):
            # the same detached builder inserted a second time: the copies share nothing but the (immutable) operations
            sub = again[0][2]
            self.ctx.probe("same_source_inserted_twice")
        else:
            sub = BuilderSim(self.ctx, root_kind=kind, features=sub_feats, max_steps=4 + ch.draw(15, "sub-steps"), root_inputs=ri)
            sub.next_id = self.next_id  # actor ids stay unique across the sub-simulation
            sub.run()
            self.detached.append((kind, [repr(x_) for x_ in (ri if kind in ("dfg", "cfg") else [*ri[0:1], *ri[1]])], sub))
        op = sub.hugr[sub.hugr.root].op
        out_tys = list(op.outer_signature().output)
        wires = [w.wire for w in ws]
        if self.features.get("failed_inserts") and kind in ("dfg", "cfg") and ch.coin(1, 3, "failed-insert"):
            # one more wire than the container takes, coming from a region that is not an ancestor: refused with
            # NoSiblingAncestor after the copy has been made (the leftover is the caller's business, the graph stays consistent)
            anc = []
            x = a
            while x is not None:
                anc.append(x)
                x = x.parent if x.parent is not None else getattr(x, "def_site", None)
            others = [o for o in self.actors if isinstance(o, Actor) and o not in anc and any(not w.lin for w in o.pool)
                      and not (a.kind == "block" and getattr(o, "cfg", None) is getattr(a, "cfg", None))]
            if others:
                bad = next(w for w in others[ch.draw(len(others), "bad-src")].pool if not w.lin)
                try:
                    (a.b.insert_nested if kind == "dfg" else a.b.insert_cfg)(sub.root_actor.b if kind == "dfg" else sub.root_builder, *wires, bad.wire)
                    outcome = "returned"
                except Exception as e:  # noqa: BLE001
                    outcome = type(e).__name__
                self.ctx.ev(a.id, f"insert_{kind} with a wire from a foreign region", None, outcome, fault="failed-insert")
                if outcome == "returned":
                    # the wire was legal after all (from a block of the same CFG: a Dom edge candidate) and the container has
                    # been attached with one wire too many: the program is no longer one of the well-formed ones
                    raise Discard("failed-insert-was-accepted")
                self.ctx.fault("failed_insert_then_continue")
                return
        if kind == "dfg":
            n = a.call("insert_nested", a.b.insert_nested, sub.root_actor.b, *wires)
        elif kind == "cfg":
            n = a.call("insert_cfg", a.b.insert_cfg, sub.root_builder, *wires)
        elif kind == "conditional":
            n = a.call("insert_conditional", a.b.insert_conditional, sub.root_builder, wires[0], *wires[1:])
        else:
            n = a.call("insert_tail_loop", a.b.insert_tail_loop, sub.root_actor.b, RowArg(ch, wires[:len(ri[0])]), RowArg(ch, wires[len(ri[0]):]))
        a.nodes.append(n)
        a.dep_local(ws, n.idx)
        self.handle(n, len(out_tys), f"insert_{kind}")
        a.add_out(n, out_tys)
        self.ctx.probe("insert_detached:" + kind)

    def step_order(self, a: Actor):
        ch = self.ctx.ch
        if self.features.get("order_to_output", True) and getattr(a.b, "output_node", None) is not None and ch.coin(1, 6, "order-edge-to-the-output-node"):
            # the Output node has a state-order input like any other dataflow node (nothing follows it: no cycle)
            src = a.nodes[ch.draw(len(a.nodes), "order-src")]
            if src.idx != a.b.output_node.idx:
                a.call("add_state_order", a.b.add_state_order, src, a.b.output_node)
                self.ctx.probe("state_order_into_output_node")
                return
        i = ch.draw(len(a.nodes) - 1, "order-src")
        j = i + 1 + ch.draw(len(a.nodes) - 1 - i, "order-dst")
        special = [k for k, n in enumerate(a.nodes) if type(self.hugr[n].op).__name__ in ("Call", "LoadFunc", "LoadConst", "CallIndirect")]
        if special and ch.coin(1, 3, "order-edge-at-a-call-like-node"):
            # nodes whose order port does not simply follow their value ports (static input, instantiated signature)
            k = ch.pick(special, "call-like")
            if k > 0 and (k == len(a.nodes) - 1 or ch.coin(1, 2, "as-target")):
                i, j = ch.draw(k, "order-src"), k
            elif k < len(a.nodes) - 1:
                i, j = k, k + 1 + ch.draw(len(a.nodes) - 1 - k, "order-dst")
            self.ctx.probe("state_order_at_call_like_node")
        src, dst = a.nodes[i], a.nodes[j]
        if src.idx == dst.idx or self.reaches(a, dst.idx, src.idx):
            self.ctx.ev(a.id, "noop")
            return
        a.call("add_state_order", a.b.add_state_order, src, dst)
        self.dep(a, src.idx, dst.idx)
        self.ctx.probe("state_order")

    def step_call(self, a: Actor):
        ch = self.ctx.ch
        t = T()
        fs = [f for f in self.funcs if f["callable"]() and self.in_scope(f, a)]
        if not fs:
            self.ctx.ev(a.id, "noop")
            return
        f = ch.pick(fs, "callee")
        polys = [x for x in fs if x["sig"] is not None and x["sig"].params]
        if polys and ch.coin(1, 2, "prefer-polymorphic-callee"):
            f = ch.pick(polys, "poly-callee")
        sig = f["sig"]
        inst, targs = self.instantiate(f)
        if f["actor"] is not None and f["actor"] is a.func_root:
            self.ctx.probe("recursive_call")
        if ch.coin(1, 3, "load-function"):
            kw = {"instantiation": inst, "type_args": targs} if sig.params else {}
            n = a.call("load_function", a.b.load_function, f["node"], **kw)
            a.nodes.append(n)
            a.add_out(n, [inst])
            self.ctx.probe("load_function")
            return
        if not all(a.can_find(x) for x in inst.input):
            self.ctx.ev(a.id, "noop")
            return
        args = [a.find(x) for x in inst.input]
        kw = {"instantiation": inst, "type_args": targs} if sig.params else {}
        local_tail = 0
        if len(args) >= 2 and ch.coin(1, 5, "call-then-link"):
            # pass only a prefix of the arguments to call() and link the rest afterwards through the graph API
            while local_tail < len(args) - 1 and args[len(args) - 1 - local_tail].owner is a:
                local_tail += 1
            local_tail = ch.draw(local_tail + 1, "n-linked-later")
        k = len(args) - local_tail
        n = a.call("call", a.b.call, f["node"], *[w.wire for w in args[:k]], **kw)
        for i in range(k, len(args)):
            a.call("add_link", self.hugr.add_link, args[i].wire.out_port(), n.inp(i))
            self.ctx.probe("call_argument_linked_later")
        a.nodes.append(n)
        a.dep_local(args, n.idx)
        self.handle(n, len(inst.output), "call")
        a.add_out(n, list(inst.output))
        f["calls"] += 1
        if f["calls"] > 1:
            self.ctx.probe("function_called_twice")
        self.ctx.probe("call")
        if sig.params:
            self.ctx.probe("poly_call")
        if len(a.nodes) >= 3 and ch.coin(1, 5, "order-edge-into-the-new-call"):
            # a state-order edge on the call itself (nothing follows the new node yet: no cycle)
            src = a.nodes[ch.draw(len(a.nodes) - 1, "order-src")]
            if src.idx != n.idx:
                a.call("add_state_order", a.b.add_state_order, src, n)
                self.dep(a, src.idx, n.idx)
                self.ctx.probe("state_order_at_call_like_node")

    def instantiate(self, f):
        """(instantiation, type_args) by the generator's own substitution."""
        t = T()
        ch = self.ctx.ch
        sig = f["sig"]
        if not sig.params:
            return sig.body, []
        kind = f["poly_kind"]
        if kind == "misc":
            return sig.body, list(f["misc_args"])
        if kind == "type":
            bound = sig.params[0].bound
            ty = self.gen_type(1, linear_ok=(bound == t.tys.TypeBound.Any), synth_only=True)
            if not synthesizable(ty):
                ty = t.B
            sub = lambda x: ty if isinstance(x, t.tys.Variable) else x  # noqa: E731
            inst = t.tys.FunctionType([sub(x) for x in sig.body.input], [sub(x) for x in sig.body.output])
            return inst, [t.tys.TypeTypeArg(ty)]
        # row variable: arity 0, 1 or 2
        n = ch.draw(3, "row-arity")
        row = [self.gen_type(1, linear_ok=False, synth_only=True) for _ in range(n)]
        row = [x if constable(x) else t.B for x in row]

        def subrow(xs):
            out = []
            for x in xs:
                if isinstance(x, t.tys.RowVariable):
                    out.extend(row)
                else:
                    out.append(x)
            return out
        inst = t.tys.FunctionType(subrow(sig.body.input), subrow(sig.body.output))
        if n != 1:
            self.ctx.probe("row_var_arity_change")
        return inst, [t.tys.SequenceArg([t.tys.TypeTypeArg(x) for x in row])]


class RootOwner:
    """Stand-in owner for controller actors when the HUGR root is a Conditional or CFG."""

    def __init__(self, sim, b):
        self.sim = sim
        self.id = sim.next_id()
        self.b = b
        self.pool = []
        self.nodes = []
        self.open_children = 0
        self.parent = None
        self.func_root = self
        self.depth = 0
        self.kind = "root-owner"
        self.closed = True
        self.region_node_idx = None
        self.const_parent_ok = sim.root_kind == "cfg"
        self.dom_visible = []

    def call(self, name, fn, *a, **kw):
        return Actor.call(self, name, fn, *a, **kw)

    def add_out(self, node, tys_):
        return []


class ModuleCtl:
    """Controller for a Module root: declares / defines functions, adds module-level items."""

    def __init__(self, sim: BuilderSim):
        self.sim = sim
        self.id = sim.next_id()
        ch = sim.ctx.ch
        self.todo = 1 + ch.draw(4, "n-module-items")
        self.n = 0
        self.kind = "module"

    def runnable(self):
        return self.todo > 0

    def call(self, name, fn, *a, **kw):
        return Actor.call(self, name, fn, *a, **kw)

    def annotate(self, node):
        """Metadata written on a module-level node after the fact (`node.metadata[...] = ...`)."""
        md = self.sim.maybe_meta()
        if md is not None and self.sim.ctx.ch.coin(1, 3, "replace-the-metadata-dictionary"):
            nd = self.sim.hugr[node]
            nd.metadata = {**nd.metadata, **md}  # NodeData is a plain record: its dictionary can be replaced as a whole
            self.sim.ctx.probe("metadata_dictionary_replaced")
        elif md is not None:
            self.sim.hugr[node].metadata.update(md)
            self.sim.meta[node.idx] = md
            self.sim.ctx.ev(0, "annotate", node.idx)
            self.sim.ctx.probe("module_level_node_annotated")

    def add_out(self, node, tys_):
        return []

    def step(self):
        sim = self.sim
        ch = sim.ctx.ch
        t = T()
        self.todo -= 1
        self.n += 1
        m = sim.module
        k = ch.weighted([6, 2, 1, 1, 4 if sim.features.get("poly", True) else 0], "module-item")
        name = sim.func_name(f"f{self.n}")
        if k == 0:  # define a function
            ins = sim.gen_row(3)
            declared = ch.coin(1, 2, "declare-outputs")
            outs = sim.gen_row(2) if declared else None
            fb = self.call("define_function", m.define_function, name, ins, outs) if declared else \
                self.call("define_function", m.define_function, name, ins)
            a = Actor(sim, "func", fb, ins, None, None, required=outs)
            rec = {"node": fb.parent_node, "name": name, "actor": a, "calls": 0, "poly_kind": None,
                   "sig": None}
            if declared:
                rec["sig"] = t.tys.PolyFuncType([], t.tys.FunctionType(ins, outs))
                rec["callable"] = lambda: True
            else:
                def late(rec=rec, a=a, ins=ins):
                    if a.closed and rec["sig"] is None:
                        rec["sig"] = t.tys.PolyFuncType([], t.tys.FunctionType(ins, a.b.parent_op.outputs))
                    return a.closed
                rec["callable"] = late
            sim.funcs.append(rec)
            sim.actors.append(a)
            sim.ctx.probe("define_function")
            self.annotate(fb.parent_node)
        elif k == 1:  # declare a function
            ins, outs = sim.gen_row(3), sim.gen_row(2)
            sig = t.tys.PolyFuncType([], t.tys.FunctionType(ins, outs))
            n = self.call("declare_function", m.declare_function, name, sig)
            self.annotate(n)
            sim.funcs.append({"node": n, "name": name, "actor": None, "calls": 0, "poly_kind": None, "sig": sig,
                              "callable": lambda: True})
        elif k == 2:  # module-level constant
            ty = sim.gen_type(0, linear_ok=False)
            if not constable(ty):
                ty = t.B
            n = self.call("add_const", m.add_const, sim.const_value(ty))
            sim.consts.append((n, ty, sim.hugr.root.idx))
        elif k == 3:  # aliases
            if ch.coin(1, 2, "alias-defn"):
                self.call("add_alias_defn", m.add_alias_defn, f"A{self.n}", sim.gen_type(0))
            else:
                self.call("add_alias_decl", m.add_alias_decl, f"A{self.n}", t.tys.TypeBound.Copyable)
        else:  # polymorphic function: declared, or defined with pass-through body
            if ch.coin(1, 3, "poly-misc"):
                # parameters of the other kinds (the body does not mention them)
                choices = [(t.tys.BoundedNatParam(), t.tys.BoundedNatArg(3)), (t.tys.BoundedNatParam(5), t.tys.BoundedNatArg(4)),
                           (t.tys.StringParam(), t.tys.StringArg("né")), (t.tys.ExtensionsParam(), t.tys.ExtensionsArg(["prelude"])),
                           (t.tys.ListParam(t.tys.BoundedNatParam()), t.tys.SequenceArg([t.tys.BoundedNatArg(1), t.tys.BoundedNatArg(2)])),
                           (t.tys.TupleParam([t.tys.StringParam(), t.tys.TypeTypeParam(t.tys.TypeBound.Any)]),
                            t.tys.SequenceArg([t.tys.StringArg("s"), t.tys.TypeTypeArg(t.Q)]))]
                picked = [ch.pick(choices, "misc-param") for _ in range(1 + ch.draw(2, "n-misc"))]
                ins, outs = sim.gen_row(2), sim.gen_row(2)
                sig = t.tys.PolyFuncType([p for p, _ in picked], t.tys.FunctionType(ins, outs))
                n = self.call("declare_function", m.declare_function, name, sig)
                self.annotate(n)
                sim.funcs.append({"node": n, "name": name, "actor": None, "calls": 0, "poly_kind": "misc", "sig": sig,
                                  "misc_args": [a for _, a in picked], "callable": lambda: True})
                sim.ctx.probe("poly_misc_params")
                return
            if ch.coin(1, 2, "poly-row"):
                p = t.tys.ListParam(t.tys.TypeTypeParam(t.tys.TypeBound.Copyable))
                rv = t.tys.RowVariable(0, t.tys.TypeBound.Copyable)
                body = t.tys.FunctionType([t.B, rv], [rv])
                kind = "row"
            else:
                bd = t.tys.TypeBound.Any if ch.coin(1, 2, "poly-any") else t.tys.TypeBound.Copyable
                p = t.tys.TypeTypeParam(bd)
                v = t.tys.Variable(0, bd)
                body = t.tys.FunctionType([v, t.B], [t.B, v])
                kind = "type"
            sig = t.tys.PolyFuncType([p], body)
            if kind == "type" and ch.coin(1, 2, "poly-define"):
                fb = self.call("define_function", m.define_function, name, list(body.input), list(body.output), [p])
                a = Actor(sim, "func", fb, list(body.input), None, None, required=list(body.output))
                sim.actors.append(a)
                sim.funcs.append({"node": fb.parent_node, "name": name, "actor": a, "calls": 0, "poly_kind": kind,
                                  "sig": sig, "callable": lambda: True})
                sim.ctx.probe("poly_define")
            else:
                n = self.call("declare_function", m.declare_function, name, sig)
                self.annotate(n)
                sim.funcs.append({"node": n, "name": name, "actor": None, "calls": 0, "poly_kind": kind, "sig": sig,
                                  "callable": lambda: True})


# ---------------------------------------------------------------------------------------------
# Detached builders attached with insert_nested / insert_cfg / insert_conditional / insert_tail_loop


def build_detached(ctx, kind):
    """A completed detached builder (own Hugr) of the given root kind, built by interleaved actors."""
    ch = ctx.ch
    feats = {"cond": ch.coin(1, 2, "f-cond"), "loop": ch.coin(1, 3, "f-loop"), "cfg": ch.coin(1, 3, "f-cfg"),
             "calls": True, "poly": False, "meta": ch.coin(2, 3, "f-meta")}
    sim = BuilderSim(ctx, root_kind=kind, features=feats, max_steps=5 + ch.draw(25, "max-steps"))
    sim.run()
    return sim


def derive_mapping(src_h, dst_h, dst_root):
    """Node correspondence of an insertion derived from the two ordered hierarchies."""
    mp = {src_h.root.idx: dst_root.idx}
    stack = [(src_h.root, dst_root)]
    while stack:
        a, b = stack.pop()
        ca, cb = src_h.children(a), dst_h.children(b)
        if len(ca) != len(cb):
            return None
        for x, y in zip(ca, cb):
            mp[x.idx] = y.idx
            stack.append((x, y))
    return mp


def run_insert_leg(ctx, probe_handle=None):
    """C08 builder leg (also feeds C16): insert a detached builder into a host dataflow builder."""
    from hugr.build.dfg import Dfg

    from ..oracles import iso

    ch = ctx.ch
    t = T()
    kind = ch.pick(["dfg", "cfg", "conditional", "tailloop"], "detached-kind")
    try:
        sub = build_detached(ctx, kind)
    except Discard as d:
        ctx.discard = str(d)
        return
    ctx.profile = {"leg": "builder-insert", "kind": kind}
    sb = sub.root_actor.b if sub.root_actor is not None else None
    op = sub.hugr[sub.hugr.root].op
    sig = op.outer_signature()
    in_tys = list(sig.input)
    n_out = len(sig.output)
    # host: a Dfg with some history (extra ops, a hole in the index space) and the needed input wires;
    # or the If / Else branch of a conditional inside such a Dfg (the wires then come from the outer region)
    extra = [t.B, t.Q][:ch.draw(3, "host-extra")]
    outer = Dfg(*in_tys, *extra)
    host = outer
    host_kind = ch.pick(["dfg", "dfg", "if", "else"], "host-kind")
    if any(is_linear(x) for x in in_tys):
        host_kind = "dfg"  # a linear wire cannot enter a branch as a non-local edge
    ctx.ev("host", "Dfg", [repr(x) for x in [*in_tys, *extra]])
    if ch.coin(1, 2, "host-hole"):
        n1 = host.hugr.add_node(t.ops.Noop(t.B), host.parent_node)
        host.hugr.add_node(t.ops.Noop(t.B), host.parent_node)
        host.hugr.delete_node(n1)
        ctx.ev("host", "add/add/delete (hole)")
        ctx.probe("insert_into_freed_indices")
    wires = list(host.inputs()[:len(in_tys)])
    if host_kind != "dfg":
        cw = outer.load(t.val.TRUE)
        if_b = outer.add_if(cw)
        if host_kind == "if":
            host = if_b
        else:
            if_b.set_outputs()
            host = if_b.add_else()
        ctx.ev("host", f"insertion happens inside the {host_kind} branch of a conditional")
        ctx.probe("insert_host:" + host_kind)
    if ch.coin(1, 2, "host-preop"):
        # route one copyable input through a Noop first so that the wire does not come from Input
        for i, ty in enumerate(in_tys):
            if not is_linear(ty):
                wires[i] = outer.add_op(t.ops.Noop(), wires[i]).out(0)
                break
    if kind in ("dfg", "cfg") and ch.coin(1, 3, "failed-insertion-first"):
        # fault, then workload: an insertion refused because of one foreign wire (NoSiblingAncestor); the caller catches it
        other = Dfg(t.B)
        try:
            if kind == "dfg":
                host.insert_nested(sb, *wires, other.inputs()[0])
            else:
                host.insert_cfg(sub.root_builder, *wires, other.inputs()[0])
            ctx.ev("host", f"insert_{kind}(+ foreign wire)", None, "returned")
        except Exception as e:  # noqa: BLE001
            ctx.ev("host", f"insert_{kind}(+ foreign wire)", None, type(e).__name__)
        ctx.fault("failed_insertion_before_the_valid_one")
    a_before = iso.observe(host.hugr)
    b_before = iso.observe(sub.hugr)
    ctx.steps += 1
    try:
        if kind == "dfg":
            node = host.insert_nested(sb, *wires)
        elif kind == "tailloop":
            nji = len(op.just_inputs)
            ra, rb = RowArg(ch, wires[:nji]), RowArg(ch, wires[nji:])
            ctx.ev("host", "rows given as", [ra.form, rb.form])
            if "iterator" in (ra.form, rb.form) or "generator" in (ra.form, rb.form):
                ctx.probe("row_given_as_one_shot_iterator")
            node = host.insert_tail_loop(sb, ra.arg(), rb.arg())
        elif kind == "cfg":
            node = host.insert_cfg(sub.root_builder, *wires)
        else:
            node = host.insert_conditional(sub.root_builder, wires[0], *wires[1:])
    except Exception as e:  # noqa: BLE001
        ctx.ev("host", f"insert_{kind}", None, f"raised {type(e).__name__}: {str(e)[:100]}")
        ctx.violate("insert", f"raised:{type(e).__name__}:insert_{kind}", str(e)[:200])
        return
    ctx.ev("host", f"insert_{kind}", [f"w{w.out_port().node.idx}.{w.out_port().offset}" for w in wires], f"n{node.idx}")
    a_after, b_after = iso.observe(host.hugr), iso.observe(sub.hugr)
    mp = derive_mapping(sub.hugr, host.hugr, node)
    if mp is None:
        ctx.violate("iso", f"hierarchy-shape:insert_{kind}", {})
        return
    how = f"insert_{kind}"
    # the given wires are attached at inputs 0..k-1: remove them from the 'after' view before the generic oracle
    ctx.checked("wires-attached")
    expected = [(w.out_port().node.idx, w.out_port().offset, node.idx, i) for i, w in enumerate(wires)]
    links = a_after["links"].copy()
    for l in expected:
        if links[l] < 1:
            ctx.violate("root-placement", f"wire-not-attached:{how}", {"link": list(l)})
        else:
            links[l] -= 1
            if links[l] == 0:
                del links[l]
    # a wire that comes from an enclosing region (Ext edge) is attached together with its state-order edge from the
    # source node to the sibling container the insertion point lies in: part of "the given wires attached"
    hh = host.hugr
    for w in wires:
        src = w.out_port().node
        sp = hh[src].parent
        c = node
        while c is not None and hh[c].parent != sp:
            c = hh[c].parent
        if c is not None and c.idx != node.idx:
            l = (src.idx, -1, c.idx, -1)
            if a_after["links"][l] < 1:
                # the edge is only legal with that order edge (hugr.md, "Ext" edges), and add_nested & co. add it
                ctx.violate("root-placement", f"wire-from-an-enclosing-region-attached-without-its-order-edge:{how}", {"wire": [src.idx, w.out_port().offset], "container": c.idx})
            if links[l] > a_before["links"][l]:
                links[l] -= 1
                if links[l] == 0:
                    del links[l]
                ctx.probe("insert_wire_is_ext_edge")
    a_after_wo = dict(a_after, links=links)
    # Ext wires from the outer region bring their state-order edge to the branch's container; take it out of the frame view
    iso.check_insert(ctx, a_before, b_before, a_after_wo, b_after, mp, host.parent_node.idx, how=how)
    if sorted(mp.values()) != [mp[k] for k in sorted(mp)]:
        ctx.probe("non_monotone_mapping")
    if any(n["metadata"] for n in b_before["nodes"].values()):
        ctx.probe("inserted_nodes_with_metadata")
    if any(l[1] == -1 for l in b_before["links"]):
        ctx.probe("inserted_order_links")
    ctx.probe("builder_insert:" + kind)
    if probe_handle is not None:
        probe_handle(ctx, node, n_out, how, False)
