"""Engine C — persistence across a restart: workloads that produce HUGRs with a history, and the
round-trip (C02) and wire-format (C03) oracles.  The reader runs in a separate interpreter
(hugrsim.restart) with another hash seed; only the document crosses."""

from __future__ import annotations

import copy
import json
from collections import Counter

from .. import restart
from ..oracles import refsem as R
from ..oracles import wire
from .a_graph import GraphSim
from .b_builders import BuilderSim, Discard


def produce(ctx, weights=(4, 3, 3), force_in_range=False, stray_links=True):
    """Returns (hugr, in_range, label) or None (discard). Draws the workload kind and runs it."""
    ch = ctx.ch
    kind = ch.weighted(list(weights), "workload")
    if kind == 0:  # (i) engine-B product
        sim = _builder(ctx, stray_links)
        if sim is None:
            return None
        ctx.profile.update(workload="builder")
        return sim.hugr, True, "builder"
    if kind == 1:  # (ii) engine-A history
        in_range = ch.coin(1, 2, "p-inrange") or force_in_range
        sim = GraphSim(ctx, in_range=in_range, allow_delete=ch.coin(3, 4, "p-delete"), allow_insert=ch.coin(1, 2, "p-insert"),
                       use_meta=ch.coin(3, 4, "p-meta"), max_nodes=6 + ch.draw(25, "p-maxnodes"), order_only_valid=True)
        _mutate(ctx, sim, 3 + ch.draw(40, "nsteps"))
        g = sim.graphs[0]
        ctx.profile.update(workload="graph", in_range=in_range, deleted=g.ever_deleted, reused=g.reused)
        if g.ever_deleted:
            ctx.probe("serialised_after_deletion")
        if g.reused:
            ctx.probe("serialised_after_index_reuse")
        return g.h, in_range, "graph"
    # (iii) engine-B product mutated by engine-A clients
    sim = _builder(ctx, stray_links)
    if sim is None:
        return None
    gs = GraphSim(ctx, in_range=True, allow_delete=True, allow_insert=ch.coin(1, 3, "p-insert"), use_meta=True,
                  max_nodes=len(sim.hugr) + 8, adopt_hugr=sim.hugr)
    _mutate(ctx, gs, 2 + ch.draw(20, "nsteps"))
    g = gs.graphs[0]
    ctx.profile.update(workload="builder+graph", deleted=g.ever_deleted, reused=g.reused)
    if g.ever_deleted:
        ctx.probe("serialised_after_deletion")
    if g.reused:
        ctx.probe("serialised_after_index_reuse")
    return g.h, True, "builder+graph"


def _builder(ctx, stray_links=True):
    ch = ctx.ch
    feats = {"cond": ch.coin(3, 4, "f-cond"), "loop": ch.coin(3, 4, "f-loop"), "cfg": ch.coin(3, 4, "f-cfg"),
             "calls": ch.coin(3, 4, "f-calls"), "poly": ch.coin(1, 2, "f-poly"), "meta": ch.coin(3, 4, "f-meta"),
             "insert": ch.coin(1, 3, "f-insert"),
             "odd_names": ch.coin(1, 3, "f-odd-names"), "second_ext": ch.coin(1, 3, "f-second-ext"), "stray_links": stray_links and ch.coin(1, 3, "f-stray-links")}
    feats["failed_inserts"] = feats["insert"] and ch.coin(1, 2, "f-failed-inserts")
    try:
        sim = BuilderSim(ctx, features=feats, max_steps=10 + ch.draw(40, "max-steps"))
        sim.run()
    except Discard as d:
        ctx.discard = str(d)
        return None
    ctx.profile.update(root=sim.root_kind)
    return sim


def _mutate(ctx, sim, nsteps):
    ch = ctx.ch
    actors = list(range(sim.n_clients)) + [g.name for g in sim.graphs[1:]]
    for _ in range(nsteps):
        a = actors[ch.draw(len(actors), "sched")]
        g = next(x for x in sim.graphs if x.name == a) if isinstance(a, str) else sim.graphs[0]
        sim.step(a, g)
        if ch.coin(1, 8, "mid-history-serialise"):
            # documents are written at any point of a history, not only at its end (a stale cache would show later)
            try:
                sim.graphs[0].h.to_json()
                ctx.probe("serialised_mid_history")
                ctx.ev("query", "to_json")
            except Exception as e:  # noqa: BLE001
                ctx.violate("serialise", f"to_json-raised:{type(e).__name__}", {"error": repr(e)[:300], "where": "mid-history"})
                return


# ---------------------------------------------------------------------------------------------


def observe_mem(h):
    """In-memory observation through public queries (plus the op's encoded form)."""
    nodes = []
    for n in h:
        d = h[n]
        par = d.parent if d.parent is not None else n
        enc = d.op._to_serial(par).model_dump(mode="json")
        nodes.append({"idx": n.idx, "op": enc, "parent": d.parent.idx if d.parent is not None else None,
                      "children": [c.idx for c in h.children(n)], "metadata": copy.deepcopy(d.metadata)})
    links = [(a.node.idx, a.offset, b.node.idx, b.offset) for a, b in h.links()]
    return {"nodes": nodes, "links": links}


def strip_parent(op):
    return {k: v for k, v in op.items() if k != "parent"}


def roundtrip_check(ctx, h, label, cross: bool):
    """C02 clauses. cross=True sends the document to the reader node (another interpreter)."""
    V = ctx.violate
    try:
        s1 = h.to_json()
        doc1 = json.loads(s1)
        mem = observe_mem(h)
    except Exception as e:  # noqa: BLE001
        V("serialise", f"to_json-raised:{type(e).__name__}", {"label": label, "error": repr(e)[:300]})
        return None
    if any(n["idx"] != r for r, n in enumerate(mem["nodes"])):
        ctx.probe("non_contiguous_indices")
    ctx.checked("load-succeeds")
    if cross:
        resp = restart.request({"kind": "hugr", "doc": s1})
        ctx.probe("restart_read")
        if "error" in resp:
            V("load-succeeds", f"{resp['error']}:reader", {"label": label, "msg": resp["msg"]})
            return doc1
        obs2, doc2 = resp["obs"], json.loads(resp["json2"])
    else:
        from hugr.hugr import Hugr
        from ..reader_main import obs_hugr
        try:
            h2 = Hugr.load_json(s1)
        except Exception as e:  # noqa: BLE001
            V("load-succeeds", f"{type(e).__name__}", {"label": label, "msg": str(e)[:300]})
            return doc1
        try:
            obs2, doc2 = json.loads(json.dumps(obs_hugr(h2))), json.loads(h2.to_json())
        except Exception as e:  # noqa: BLE001
            V("doc-fixpoint", f"reserialise-raised:{type(e).__name__}", {"label": label, "msg": str(e)[:300]})
            return doc1
    where = "reader" if cross else "same-process"
    # doc-fixpoint
    ctx.checked("doc-fixpoint")
    if doc2 != doc1:
        ctx.violate("doc-fixpoint", _doc_diff_cls(doc1, doc2), {"label": label, "where": where, "diff": _first_diff(doc1, doc2)})
    # observable structure: node r(i) of the loaded HUGR vs node i of the original
    n1, n2 = mem["nodes"], obs2["nodes"]
    ctx.checked("structure")
    if len(n1) != len(n2):
        V("hierarchy", "node-count", {"label": label, "orig": len(n1), "loaded": len(n2)})
        return doc1
    rank = correspondence(ctx, n1, {b["idx"]: b["children"] for b in n2}, obs2.get("root", 0), label)
    if rank is None:
        return doc1
    by2 = {b["idx"]: b for b in n2}
    for a in n1:
        b = by2[rank[a["idx"]]]
        if strip_parent(a["op"]) != strip_parent(b["op"]):
            V("op-encoding", _op_diff_cls(a["op"], b["op"]), {"label": label, "node": a["idx"], "orig": strip_parent(a["op"]),
                                                              "loaded": strip_parent(b["op"])})
        if json.loads(json.dumps(a["metadata"])) != b["metadata"]:
            V("metadata", "all-dropped" if not b["metadata"] else "differs",
              {"node": a["idx"], "orig": a["metadata"], "loaded": b["metadata"]})
    # link multiset (order links of the original are at -1; in the document/loaded HUGR at their order offset)
    ctx.checked("link-multiset")
    try:
        pred = Counter(wire.predicted_edges(doc1, mem["links"], rank))
    except (KeyError, IndexError, ValueError, TypeError) as e:
        V("link-multiset", f"unpredictable:{type(e).__name__}", {"label": label})
        return doc1
    got = Counter(((l[0], l[1]), (l[2], l[3])) for l in obs2["links"])
    if pred != got:
        missing, extra = pred - got, got - pred
        order = any(l[1] == -1 for l in mem["links"])
        V("link-multiset", "links-differ" + (":with-order-links" if order else ""),
          {"label": label, "missing": sorted(missing.elements())[:6], "extra": sorted(extra.elements())[:6]})
    return doc1


def hierarchy_consistent(nodes) -> bool:
    """Does increasing index list every parent before its children and siblings in child order?"""
    for n in nodes:
        if n["parent"] is not None and n["parent"] > n["idx"]:
            return False
        if n["children"] != sorted(n["children"]):
            return False
    return True


def correspondence(ctx, mem_nodes, loaded_children, loaded_root, label):
    """The node correspondence original -> loaded/document, derived from the two ordered hierarchies
    (root to root, k-th child to k-th child).  Where increasing index is hierarchy-consistent the
    statement's licence applies: the correspondence must be the order-preserving renumbering."""
    by = {n["idx"]: n for n in mem_nodes}
    root = next(n["idx"] for n in mem_nodes if n["parent"] is None)
    pi = {root: loaded_root}
    queue = [root]
    while queue:
        x = queue.pop()
        ca, cb = by[x]["children"], loaded_children.get(pi[x], [])
        if len(ca) != len(cb):
            ctx.violate("hierarchy", "child-count", {"label": label, "node": x, "orig": len(ca), "loaded": len(cb)})
            return None
        for c, d in zip(ca, cb):
            pi[c] = d
            queue.append(c)
    if len(pi) != len(mem_nodes) or len(set(pi.values())) != len(pi):
        ctx.violate("hierarchy", "not-a-tree-isomorphism", {"label": label})
        return None
    if hierarchy_consistent(mem_nodes):
        ranks = {n["idx"]: r for r, n in enumerate(sorted(mem_nodes, key=lambda n: n["idx"]))}
        if pi != ranks:
            bad = next(i for i in sorted(pi) if pi[i] != ranks[i])
            ctx.violate("hierarchy", "child-order" if True else "", {"label": label, "node": bad, "index_rank": ranks[bad],
                                                                     "position_in_loaded_hierarchy": pi[bad]})
            return None
    else:
        ctx.probe("index_order_not_hierarchy_consistent")
    return pi


def _first_diff(a, b, path=""):
    if type(a) is not type(b):
        return {"path": path, "a": repr(a)[:120], "b": repr(b)[:120]}
    if isinstance(a, dict):
        for k in sorted(set(a) | set(b)):
            if k not in a or k not in b:
                return {"path": f"{path}/{k}", "a": repr(a.get(k, '<absent>'))[:120], "b": repr(b.get(k, '<absent>'))[:120]}
            d = _first_diff(a[k], b[k], f"{path}/{k}")
            if d:
                return d
        return None
    if isinstance(a, list):
        if len(a) != len(b):
            return {"path": path, "len_a": len(a), "len_b": len(b)}
        for i, (x, y) in enumerate(zip(a, b)):
            d = _first_diff(x, y, f"{path}/{i}")
            if d:
                return d
        return None
    return None if a == b else {"path": path, "a": repr(a)[:120], "b": repr(b)[:120]}


def _doc_diff_cls(d1, d2):
    d = _first_diff(d1, d2) or {}
    parts = [p for p in d.get("path", "").split("/") if p]
    # generalise indices
    gen = [("*" if p.isdigit() else p) for p in parts]
    if gen[:1] == ["nodes"] and len(parts) > 1 and parts[1].isdigit() and int(parts[1]) < len(d1["nodes"]):
        return f"nodes:{d1['nodes'][int(parts[1])]['op']}:" + "/".join(gen[2:5])
    return "/".join(gen[:4]) or "differs"


def _op_diff_cls(a, b):
    d = _first_diff(strip_parent(a), strip_parent(b)) or {}
    parts = [("*" if p.isdigit() else p) for p in d.get("path", "").split("/") if p]
    return f"{a.get('op')}:" + "/".join(parts[:3])


def wire_check(ctx, h, in_range, label, doc=None):
    """C03 clauses on the document the HUGR serialises to."""
    V = ctx.violate
    try:
        doc = doc if doc is not None else wire.strict_loads(h.to_json())
    except wire.NotJson as e:
        V("schema", "document-is-not-json", {"label": label, "error": str(e)})
        return
    except Exception as e:  # noqa: BLE001
        V("serialise", f"to_json-raised:{type(e).__name__}", {"label": label, "error": repr(e)[:300]})
        return
    ctx.checked("schema")
    for (ptr, msg) in wire.schema_errors(doc, "SerialHugr"):
        V("schema", ptr or "root", {"label": label, "message": msg})
    ctx.checked("index-sanity")
    san = wire.index_sanity(doc)
    for (cls, det) in san[:3]:
        V("index-sanity", cls, {"label": label, **det})
    if not in_range or san:
        return
    ctx.checked("port-addressing")
    mem_nodes = [{"idx": n.idx, "parent": h[n].parent.idx if h[n].parent is not None else None,
                  "children": [c.idx for c in h.children(n)]} for n in h]
    doc_children = {}
    for i, o in enumerate(doc["nodes"]):
        if i != 0:
            doc_children.setdefault(o["parent"], []).append(i)
    rank = correspondence(ctx, mem_nodes, doc_children, 0, label)
    if rank is None:
        return
    links = [(a.node.idx, a.offset, b.node.idx, b.offset) for a, b in h.links()]
    try:
        pred = Counter(wire.predicted_edges(doc, links, rank))
    except (KeyError, IndexError, ValueError, TypeError) as e:
        V("port-addressing", f"unpredictable:{type(e).__name__}", {"label": label})
        return
    got = Counter(((e[0][0], e[0][1]), (e[1][0], e[1][1])) for e in doc["edges"])
    if label == "builder":
        # builder products: an edge leaving a static output (Const / FuncDefn / FuncDecl) arrives at the static
        # input port of its target, which sits immediately after the target's value inputs
        ctx.checked("static-port")
        sems = [R.op_sem(o) for o in doc["nodes"]]
        for (s_, so), (d_, do) in got:
            if sems[s_]["sout"] is not None and so == 0 and sems[d_]["sin"] is not None:
                want_off = len(sems[d_]["vin"] or [])
                if do != want_off:
                    V("port-addressing", f"static-port-offset:{doc['nodes'][d_]['op']}", {"label": label, "edge": [[s_, so], [d_, do]],
                                                                                       "expected_offset": want_off})
    if pred != got:
        missing, extra = pred - got, got - pred
        has_order = any(l[1] == -1 for l in links)
        mo = [e for e in extra.elements()]
        V("port-addressing", "order-edge-offset" if has_order and len(missing) == len(extra) else "edges-differ",
          {"label": label, "expected_not_emitted": sorted(missing.elements())[:5], "emitted_not_expected": sorted(mo)[:5]})


def continue_on_loaded(ctx, doc_str, label, orig=None):
    """The history continues on the loaded copy (C02/C03): load, mutate the loaded HUGR through the graph API
    (incl. in-place metadata edits and new order links next to order edges that were read with explicit offsets),
    round-trip and wire-check it again, and load the original document once more: it must load the same."""
    from hugr.hugr import Hugr

    from ..reader_main import obs_hugr

    ch = ctx.ch
    if ch.coin(1, 3, "failed-load-first"):
        # fault, then workload: a document cut short is rejected; the intact one must then load as if nothing had happened
        cut = doc_str[:max(1, len(doc_str) * (1 + ch.draw(8, "cut")) // 10)]
        try:
            Hugr.load_json(cut)
            ctx.probe("truncated_document_loaded")
        except Exception:  # noqa: BLE001
            ctx.fault("truncated_document_rejected")
    try:
        h2 = Hugr.load_json(doc_str)
        first = json.loads(json.dumps(obs_hugr(h2)))
    except Exception:  # noqa: BLE001  (judged by roundtrip_check)
        return
    orig_obs = json.loads(json.dumps(obs_hugr(orig), default=repr)) if orig is not None else None
    gs = GraphSim(ctx, in_range=True, allow_delete=ch.coin(1, 2, "p-delete"), allow_insert=False, use_meta=True,
                  max_nodes=len(h2) + 6, adopt_hugr=h2, order_only_valid=True)
    _mutate(ctx, gs, 1 + ch.draw(8, "nsteps-loaded"))
    ctx.probe("history_continued_on_loaded_copy")
    gs.compare(gs.graphs[0], "mutation-of-loaded-copy")
    if ctx.violations:
        return
    roundtrip_check(ctx, h2, label + "+loaded+mutated", False)
    wire_check(ctx, h2, True, label + "+loaded+mutated")
    if orig is not None:
        # two objects that share a document, not state: edits of the loaded copy do not show in the original
        ctx.checked("copy-independent")
        if json.loads(json.dumps(obs_hugr(orig), default=repr)) != orig_obs:
            ctx.violate("copy-independent", "original-changed-by-edits-of-the-loaded-copy", {"label": label})
    ctx.checked("load-deterministic")
    try:
        again = json.loads(json.dumps(obs_hugr(Hugr.load_json(doc_str))))
    except Exception as e:  # noqa: BLE001
        ctx.violate("load-deterministic", f"second-load-raised:{type(e).__name__}", {"label": label})
        return
    if again != first:
        d = _first_diff(first, again) or {}
        what = "metadata" if "metadata" in d.get("path", "") else "structure"
        ctx.violate("load-deterministic", f"same-document-loads-differently:{what}", {"label": label, "diff": d})


def doc_positions(ctx, h, doc, label="doc"):
    """in-memory node index -> position in the document (None + violation if the hierarchies do not match)."""
    mem_nodes = [{"idx": n.idx, "parent": h[n].parent.idx if h[n].parent is not None else None,
                  "children": [c.idx for c in h.children(n)]} for n in h]
    doc_children = {}
    for i, o in enumerate(doc["nodes"]):
        if i != 0:
            doc_children.setdefault(o["parent"], []).append(i)
    return correspondence(ctx, mem_nodes, doc_children, 0, label)
