"""Engine A — graph-store clients: 1-3 client actors share one Hugr (plus auxiliary HUGRs used
as insertion sources); every call is mirrored on a RefGraph; the scheduler picks who steps next.
"""

from __future__ import annotations

import copy
from collections import Counter

from ..kernel import HarnessError
from ..oracles.refgraph import RefGraph

_CAT = None


def catalogue():
    """Complete ops with (name, factory, n_in, n_out, has_order, may_parent).

    n_in / n_out count the non-order ports the op really has (value + static + control-flow).
    """
    global _CAT
    if _CAT is not None:
        return _CAT
    from hugr import ops, tys, val
    from hugr.std.logic import Not
    from hugr.std.int import DivMod

    B = tys.Bool
    Q = tys.Qubit
    pf = tys.PolyFuncType([], tys.FunctionType([B], [B]))
    ppf = tys.PolyFuncType([tys.TypeTypeParam(tys.TypeBound.Copyable)],
                           tys.FunctionType([tys.Variable(0, tys.TypeBound.Copyable)], [tys.Variable(0, tys.TypeBound.Copyable)]))

    def dfg():
        return ops.DFG([B], [B, Q])

    def fdefn():
        return ops.FuncDefn("f", [B], [], [B])

    def pfdefn():
        return ops.FuncDefn("poly", [tys.Variable(0, tys.TypeBound.Copyable)], [tys.TypeTypeParam(tys.TypeBound.Copyable)],
                            [tys.Variable(0, tys.TypeBound.Copyable)])

    def block():
        return ops.DataflowBlock([B], tys.Sum([[], [B]]), [Q], ["ext.delta"])

    def tail():
        return ops.TailLoop([B], [Q], [tys.Unit], ["ext.tl"])

    def _const_fn():
        from hugr.build.dfg import Dfg
        d = Dfg(B)
        d.set_outputs(d.add_op(Not, d.inputs()[0]))
        return d.hugr

    _CAT = [
        ("Noop", lambda: ops.Noop(B), 1, 1, True, False),
        ("Not", lambda: Not, 1, 1, True, False),
        ("DivMod", lambda: DivMod, 2, 2, True, False),
        ("DFG", dfg, 1, 2, True, True),
        ("Input", lambda: ops.Input([B, Q]), 0, 2, "out", False),
        ("Output", lambda: ops.Output([B, Q]), 2, 0, "in", False),
        ("Const", lambda: ops.Const(val.TRUE), 0, 1, False, False),
        ("LoadConst", lambda: ops.LoadConst(B), 1, 1, True, False),
        ("FuncDefn", fdefn, 0, 1, False, True),
        ("PolyFuncDefn", pfdefn, 0, 1, False, True),
        ("FuncDecl", lambda: ops.FuncDecl("g", pf), 0, 1, False, False),
        ("Call", lambda: ops.Call(pf), 2, 1, True, False),
        ("PolyCall", lambda: ops.Call(ppf, tys.FunctionType([Q], [Q]), [tys.TypeTypeArg(Q)]), 2, 1, True, False),
        ("LoadFunc", lambda: ops.LoadFunc(pf), 1, 1, True, False),
        ("CallIndirect", lambda: ops.CallIndirect(tys.FunctionType([B], [Q])), 2, 1, True, False),
        ("Tag", lambda: ops.Tag(1, tys.Sum([[B], [Q, B]])), 2, 1, True, False),
        ("MakeTuple", lambda: ops.MakeTuple([B, Q]), 2, 1, True, False),
        ("UnpackTuple", lambda: ops.UnpackTuple([B, Q]), 1, 2, True, False),
        ("Custom", lambda: ops.Custom("Op", tys.FunctionType([B, Q], [Q]), "a description", "unknown.ext",
                                      [tys.BoundedNatArg(3)]), 2, 1, True, False),
        ("CFG", lambda: ops.CFG([B], [Q]), 1, 1, True, True),
        ("DataflowBlock", block, 1, 2, False, True),
        ("ExitBlock", lambda: ops.ExitBlock([Q]), 1, 0, False, False),
        ("Conditional", lambda: ops.Conditional(tys.Sum([[B], []]), [Q], [Q]), 2, 1, True, True),
        ("Case", lambda: ops.Case([B, Q], [Q]), 0, 0, False, True),
        ("TailLoop", tail, 2, 2, True, True),
        ("NatPolyDecl", lambda: ops.FuncDecl("np", tys.PolyFuncType(
            [tys.BoundedNatParam(), tys.BoundedNatParam(4), tys.StringParam(), tys.ExtensionsParam(),
             tys.ListParam(tys.TypeTypeParam(tys.TypeBound.Any)), tys.TupleParam([tys.StringParam()])],
            tys.FunctionType([tys.USize(), tys.Alias("al", tys.TypeBound.Copyable)], [tys.RowVariable(4, tys.TypeBound.Any)]))), 0, 1, False, False),
        ("NatPolyCall", lambda: ops.Call(tys.PolyFuncType([tys.BoundedNatParam()], tys.FunctionType([B], [B])),
                                         tys.FunctionType([B], [B]), [tys.VariableArg(0, tys.BoundedNatParam())]), 2, 1, True, False),
        ("CustomArgs", lambda: ops.Custom("Op2", tys.FunctionType([B], []), "", "unknown.ext",
                                          [tys.StringArg("s☃"), tys.ExtensionsArg(["a", "b"]), tys.SequenceArg([tys.TypeTypeArg(tys.Tuple())]),
                                           tys.VariableArg(1, tys.BoundedNatParam(3)), tys.TypeTypeArg(tys.Option())]), 1, 0, True, False),
        ("FuncConst", lambda: ops.Const(val.Function(_const_fn())), 0, 1, False, False),
        ("SumConst", lambda: ops.Const(val.Sum(1, tys.Sum([[B], [B, tys.Unit]]), [val.TRUE, val.Unit])), 0, 1, False, False),
        ("DFGdelta", lambda: ops.DFG([B], [B], ["ext.d1", "ext.d2"]), 1, 1, True, True),
        ("AliasDecl", lambda: ops.AliasDecl("al", tys.TypeBound.Copyable), 0, 0, False, False),
        ("AliasDefn", lambda: ops.AliasDefn("ad", tys.Tuple(B, Q)), 0, 0, False, False),
    ]
    return _CAT


META_POOL = [
    {"k": 1}, {"name": "né", "nested": {"a": [1, 2, {"b": None}]}}, {"big": 2 ** 60, "f": 1.5, "t": True},
    {"": ""}, {"esc": "q\"\\\n\t☃", "l": []}, {"z": {}}, {"a": 0, "b": False, "c": None},
]


def has_order(spec, direction) -> bool:
    return spec[4] is True or spec[4] == direction


class G:
    """One real Hugr with its reference model and bookkeeping."""

    def __init__(self, name, hugr, root_op, root_spec):
        self.name = name
        self.h = hugr
        self.m = RefGraph(root_op)
        self.handles = {0: hugr.root}
        self.spec = {0: root_spec}  # idx -> catalogue entry
        self.req_outs = {}
        self.ever_deleted = False
        self.reused = False


def adopt(name, hugr) -> G:
    """Wrap an existing HUGR (e.g. an engine-B product) so that engine-A clients can mutate it."""
    import json

    from ..oracles import refsem as R

    g = G.__new__(G)
    g.name = name
    g.h = hugr
    doc = json.loads(hugr.to_json())
    live = [n for n in hugr]
    g.m = RefGraph(hugr[hugr.root].op)
    g.m.nodes = {}
    g.handles, g.spec, g.req_outs = {}, {}, {}
    from ..oracles.refgraph import RNode
    # position of each node in the document: index rank, or a hierarchy walk when indices have been reused
    pos = {hugr.root.idx: 0}
    doc_children = {}
    for i, o in enumerate(doc["nodes"]):
        if i != 0:
            doc_children.setdefault(o["parent"], []).append(i)
    stack = [hugr.root]
    while stack:
        x = stack.pop()
        for c, dpos in zip(hugr.children(x), doc_children.get(pos[x.idx], [])):
            pos[c.idx] = dpos
            stack.append(c)
    for n in live:
        rank = pos[n.idx]
        d = hugr[n]
        rn = RNode(d.op, d.parent.idx if d.parent is not None else None, d.metadata, None)
        rn.children = [c.idx for c in hugr.children(n)]
        g.m.nodes[n.idx] = rn
        g.handles[n.idx] = n
        sem = R.op_sem(doc["nodes"][rank])
        oi, oo = sem["oin"][0] == "order", sem["oout"][0] == "order"
        has_order = True if (oi and oo) else ("in" if oi else ("out" if oo else False))
        g.spec[n.idx] = (doc["nodes"][rank]["op"], None, R.n_in(sem) - (1 if sem["oin"][0] == "order" else 0),
                         R.n_out(sem) - (1 if sem["oout"][0] == "order" else 0), has_order, sem["flags"]["children"] != "None")
    g.m.root = hugr.root.idx
    g.m.links = [(a.node.idx, a.offset, b.node.idx, b.offset) for a, b in hugr.links()]
    g.ever_deleted = False
    g.reused = False
    return g


class GraphSim:
    def __init__(self, ctx, in_range: bool = False, allow_delete: bool = True, allow_insert: bool = True,
                 use_meta: bool = True, max_nodes: int = 25, n_aux: int | None = None, adopt_hugr=None,
                 order_only_valid: bool = False):
        from hugr.hugr import Hugr  # noqa: F401

        self.ctx = ctx
        ch = ctx.ch
        self.in_range = in_range
        self.order_only_valid = order_only_valid
        self.allow_delete = allow_delete
        self.allow_insert = allow_insert
        self.use_meta = use_meta
        self.max_nodes = max_nodes
        # some runs pile links onto few ports (a port with ten or more links, many parallel links)
        self.hot_bias = ctx.ch.coin(1, 6, "hot-port-bias")
        # ... and some runs use port offsets far beyond the usual handful (nodes with dozens of ports)
        self.high_offsets = (not in_range) and ctx.ch.coin(1, 8, "high-port-offsets")
        self.cat = catalogue()
        self.graphs: list[G] = [adopt("A", adopt_hugr) if adopt_hugr is not None else self._new_graph("A", ch)]
        n_aux = ch.draw(3, "n-aux") if n_aux is None else n_aux
        if not allow_insert:
            n_aux = 0
        for i in range(n_aux):
            self.graphs.append(self._new_graph(f"B{i}", ch))
        self.n_clients = 1 + ch.draw(3, "n-clients")
        self.recent = {a: [] for a in range(self.n_clients + len(self.graphs))}
        self.last_insert = None  # (target G, source G, mapping, snapshot_before, parent)

    def _new_graph(self, name, ch):
        from hugr.hugr import Hugr
        from hugr import ops

        roots = [e for e in self.cat if e[5]] if name != "A" or ch.coin(1, 3, "odd-root") else []
        if roots and ch.coin(2, 3, "nonmodule-root"):
            e = ch.pick(roots, "root-op")
            op = e[1]()
            spec = e
        else:
            op = ops.Module()
            spec = ("Module", None, 0, 0, False, True)
        h = Hugr(op)
        self.ctx.ev(name, "Hugr", spec[0])
        return G(name, h, op, spec)

    # -- choosing ---------------------------------------------------------------------
    def _pick_node(self, g: G, actor, tag, pred=None):
        ch = self.ctx.ch
        live = sorted(g.m.nodes)
        if pred:
            live = [i for i in live if pred(i)]
        if not live:
            return None
        rec = [i for i in self.recent.get(actor, []) if i in live]
        if rec and ch.coin(1, 2, tag + "-recent"):
            return rec[-1 - ch.draw(min(3, len(rec)), tag + "-r")]
        return ch.pick(live, tag)

    def _handle(self, g: G, idx):
        from hugr.hugr.node_port import Node

        if self.ctx.ch.coin(1, 4, "fresh-handle"):
            return Node(idx)
        return g.handles[idx]

    def _offset(self, g, idx, direction, tag):
        ch = self.ctx.ch
        spec = g.spec[idx]
        n = spec[2] if direction == "in" else spec[3]
        if self.in_range:
            opts = list(range(n)) + ([-1] if has_order(spec, direction) else [])
            if not opts:
                return None
            return ch.pick(opts, tag)
        if (has_order(spec, direction) or not self.order_only_valid) and ch.coin(1, 6, tag + "-order"):
            return -1
        if self.high_offsets and ch.coin(1, 4, tag + "-high"):
            self.ctx.probe("port_offset_8_or_more")
            return 8 + ch.draw(24, tag + "-high-offset")
        return ch.draw(4, tag)

    def _note(self, actor, idx):
        r = self.recent.setdefault(actor, [])
        if idx in r:
            r.remove(idx)
        r.append(idx)
        del r[:-6]

    def sut(self, name, fn, *a, **kw):
        """Call the real object; an exception from a mutator that must not fail is a violation."""
        try:
            return fn(*a, **kw)
        except Exception as e:  # noqa: BLE001
            self.ctx.ev("sut", name, None, f"raised {type(e).__name__}: {e}")
            self.ctx.violate("no-crash", f"{name}:{type(e).__name__}", repr(e), stop=True)

    # -- steps -------------------------------------------------------------------------
    def step(self, actor, g: G | None = None):
        """One state-changing call by `actor` on graph g (default: the shared graph A)."""
        ch = self.ctx.ch
        g = g or self.graphs[0]
        w_add = 6 if len(g.m.nodes) < self.max_nodes else 0
        w_link = 8 if len(g.m.nodes) > 1 else 0
        w_order = 2 if len(g.m.nodes) > 1 else 0
        w_dlink = 4 if (self.allow_delete and g.m.links) else 0
        w_dlink_absent = 1 if self.allow_delete else 0
        w_dnode = 3 if (self.allow_delete and len(g.m.nodes) > 1) else 0
        w_ins = 1 if (self.allow_insert and len(self.graphs) > 1 and g is self.graphs[0]
                      and len(g.m.nodes) < self.max_nodes) else 0
        w_meta = 1 if self.use_meta else 0
        w_fail = 1 if self.allow_delete else 0
        k = ch.weighted([w_add, w_link, w_order, w_dlink, w_dlink_absent, w_dnode, w_ins, w_meta, w_fail], "step")
        self.ctx.steps += 1
        return [self.do_add_node, self.do_add_link, self.do_add_order, self.do_delete_link,
                self.do_delete_absent_link, self.do_delete_node, self.do_insert, self.do_edit_meta, self.do_failing_call][k](actor, g)

    def do_failing_call(self, actor, g):
        """A call on a handle that is not live: it raises KeyError (a deleted node is unreachable) and changes nothing;
        the client catches the error and the history goes on (fault, then workload)."""
        from hugr.hugr.node_port import Node
        ch = self.ctx.ch
        dead = list(g.m.dead) + [max(list(g.m.nodes) + g.m.dead) + 1 + ch.draw(3, "beyond")]
        d = ch.pick(dead, "dead-idx")
        which = ch.draw(5, "failing-call")
        name = ["delete_node", "children", "num_out_ports", "lookup", "add_node(parent=dead)"][which]
        try:
            if which == 4:
                g.h.add_node(self.cat[0][1](), Node(d))
            elif which == 0:
                g.h.delete_node(Node(d))
            elif which == 1:
                g.h.children(Node(d))
            elif which == 2:
                g.h.num_out_ports(Node(d))
            else:
                g.h[Node(d)]
            outcome = "returned"
        except KeyError:
            outcome = "KeyError"
        except Exception as e:  # noqa: BLE001
            outcome = type(e).__name__
        self.ctx.ev(actor, f"{name}(dead handle)", {"g": g.name, "idx": d}, outcome)
        self.ctx.fault("call_on_dead_handle")
        self.ctx.checked("dead-handle")
        if outcome != "KeyError":
            self.ctx.violate("lookup", f"dead-handle-{name}:{outcome}", {"idx": d})
        return ("failing_call", d)

    def do_edit_meta(self, actor, g):
        """Edit a node's metadata dictionary in place (through the handle's .metadata or the node data)."""
        ch = self.ctx.ch
        idx = self._pick_node(g, actor, "meta-node")
        key = ch.pick(["k", "name", "né", "extra"], "meta-key")
        val = ch.pick([1, "v", [1, {"x": None}], {"a": "b"}, None, 2 ** 60, False], "meta-val2")
        via = ch.draw(3, "meta-via")
        if via == 2:
            # the node data's dictionary is replaced as a whole (NodeData is a plain record)
            nd = g.h[self._handle(g, idx)]
            nd.metadata = {**nd.metadata, key: val}
            self.ctx.probe("metadata_dictionary_replaced")
        elif via == 0:
            g.h[self._handle(g, idx)].metadata[key] = val
        else:
            # the handle stored by the engine was returned by the API and shares the node's dictionary
            hnd = g.handles[idx]
            if hnd.metadata is g.h[hnd].metadata:
                hnd.metadata[key] = val
            else:
                g.h[hnd].metadata[key] = val
                self.ctx.probe("handle_metadata_not_shared")
        g.m.nodes[idx].metadata[key] = val
        # also reach inside a nested value when there is one (depth >= 3: {"nested": {"a": [..]}})
        real = g.h[g.handles[idx]].metadata
        inner_r, inner_m = real.get("nested"), g.m.nodes[idx].metadata.get("nested")
        if isinstance(inner_r, dict) and isinstance(inner_r.get("a"), list) and ch.coin(1, 2, "nested-edit"):
            inner_r["a"].append(len(self.ctx.events))
            inner_m["a"].append(len(self.ctx.events))
            self.ctx.probe("nested_metadata_edited_in_place")
        self.ctx.probe("metadata_edited_in_place")
        self.ctx.ev(actor, "metadata[k]=v", {"g": g.name, "idx": idx, "key": key})
        return ("edit_meta", idx)

    def do_add_node(self, actor, g):
        ch = self.ctx.ch
        e = ch.pick(self.cat, "op")
        op = e[1]()
        parent = self._pick_node(g, actor, "parent")
        md = None
        if self.use_meta and ch.coin(1, 3, "meta"):
            md = copy.deepcopy(ch.pick(META_POOL, "meta-v"))  # never hand the pool's own (nested) objects to the system under test
        kw = {}
        req = None
        mode = ch.draw(4, "num-outs-mode")
        if mode == 1:
            req = e[3]
        elif mode == 2 and not self.in_range:
            req = ch.draw(5, "num-outs")
        use_const = e[0] == "Const" and ch.coin(1, 2, "add_const")
        default_parent = parent == 0 and ch.coin(1, 2, "default-parent")
        ph = None if default_parent else self._handle(g, parent)
        if use_const:
            node = self.sut('add_const', g.h.add_const, op.val, ph, metadata=md)
            op = g.h[node].op
            req = None
        else:
            if req is not None:
                kw["num_outs"] = req
            node = self.sut('add_node', g.h.add_node, op, ph, metadata=md, **kw)
        idx = node.idx
        if idx in g.m.nodes:
            self.ctx.violate("add_node", "returned-live-index", {"idx": idx}, stop=True)
        if idx in g.m.dead:
            self.ctx.probe("freed_index_reused")
            g.reused = True
        g.m.add_node(idx, op, parent, md, req)
        g.handles[idx] = node
        g.spec[idx] = e
        if req is not None:
            g.req_outs[idx] = req
        else:
            g.req_outs.pop(idx, None)
        self._note(actor, idx)
        self.ctx.ev(actor, "add_const" if use_const else "add_node",
                    {"g": g.name, "op": e[0], "parent": parent, "num_outs": req, "meta": md is not None}, idx)
        return ("add_node", idx)

    def do_add_link(self, actor, g):
        ch = self.ctx.ch
        for _ in range(4):
            s = self._pick_node(g, actor, "src")
            d = self._pick_node(g, actor, "dst")
            so = self._offset(g, s, "out", "so")
            do = self._offset(g, d, "in", "do")
            if so is not None and do is not None:
                break
        else:
            self.ctx.ev(actor, "noop", {"g": g.name})
            return ("noop",)
        if self.in_range and (so == -1) != (do == -1):
            # an order port links to an order port only: re-draw the odd end among the ports the op has
            if has_order(g.spec[s], "out") and has_order(g.spec[d], "in") and ch.coin(1, 2, "both-order"):
                so = do = -1
            else:
                ns, nd = g.spec[s][3], g.spec[d][2]
                if (so == -1 and ns == 0) or (do == -1 and nd == 0):
                    self.ctx.ev(actor, "noop", {"g": g.name})
                    return ("noop",)
                if so == -1:
                    so = ch.draw(ns, "so-redraw")
                if do == -1:
                    do = ch.draw(nd, "do-redraw")
        if self.hot_bias and g.m.links:
            val = [x for x in g.m.links if x[1] >= 0 and x[3] >= 0]
            if val and so >= 0 and ch.coin(1, 2, "hot-src"):
                s, so = ch.pick(val, "hot-src-link")[:2]
            if val and do >= 0 and ch.coin(1, 3, "hot-dst"):
                d, do = ch.pick(val, "hot-dst-link")[2:]
        if sum(1 for x in g.m.links if x[0] == s and x[1] == so) >= 8 or sum(1 for x in g.m.links if x[2] == d and x[3] == do) >= 8:
            self.ctx.probe("port_with_9_links_or_more")
        if g.m.linked_from_out(s, so):
            self.ctx.probe("fan_out")
        if g.m.linked_from_in(d, do):
            self.ctx.probe("fan_in")
        if (s, so, d, do) in g.m.links:
            self.ctx.probe("parallel_link")
        self.sut('add_link', g.h.add_link, self._handle(g, s).out(so), self._handle(g, d).inp(do))
        g.m.add_link(s, so, d, do)
        self._note(actor, s)
        self._note(actor, d)
        self.ctx.ev(actor, "add_link", {"g": g.name, "l": [s, so, d, do]})
        return ("add_link", (s, so, d, do))

    def do_add_order(self, actor, g):
        strict = self.in_range or self.order_only_valid
        s = self._pick_node(g, actor, "osrc", (lambda i: has_order(g.spec[i], "out")) if strict else None)
        d = self._pick_node(g, actor, "odst", (lambda i: has_order(g.spec[i], "in")) if strict else None)
        if s is None or d is None:
            self.ctx.ev(actor, "noop", {"g": g.name})
            return ("noop",)
        self.sut('add_order_link', g.h.add_order_link, self._handle(g, s), self._handle(g, d))
        added = g.m.add_order_link(s, d)
        if not added:
            self.ctx.probe("order_link_repeat")
        self.ctx.ev(actor, "add_order_link", {"g": g.name, "l": [s, d]}, added)
        return ("add_order_link", (s, d))

    def do_delete_link(self, actor, g):
        ch = self.ctx.ch
        l = ch.pick(g.m.links, "which-link")
        s, so, d, do = l
        fan = [x for x in g.m.links if x[0] == s and x[1] == so]
        fin = [x for x in g.m.links if x[2] == d and x[3] == do]
        if len(fan) >= 3 and fan[0] != l and fan[-1] != l:
            self.ctx.probe("fanout_middle_deleted")
        elif len(fan) >= 2 and fan[-1] != l:
            self.ctx.probe("fanout_nonlast_deleted")
        if len(fin) >= 2 and fin[-1] != l:
            self.ctx.probe("fanin_nonlast_deleted")
        if g.m.links.count(l) > 1:
            self.ctx.probe("parallel_link_deleted")
        self.sut('delete_link', g.h.delete_link, self._handle(g, s).out(so), self._handle(g, d).inp(do))
        g.m.delete_link(s, so, d, do)
        g.ever_deleted = True
        self.ctx.ev(actor, "delete_link", {"g": g.name, "l": [s, so, d, do]})
        return ("delete_link", l)

    def do_delete_absent_link(self, actor, g):
        s = self._pick_node(g, actor, "src")
        d = self._pick_node(g, actor, "dst")
        so = self.ctx.ch.draw(4, "so") - 1
        do = self.ctx.ch.draw(4, "do") - 1
        existed = (s, so, d, do) in g.m.links
        self.sut('delete_link', g.h.delete_link, self._handle(g, s).out(so), self._handle(g, d).inp(do))
        g.m.delete_link(s, so, d, do)
        if not existed:
            self.ctx.probe("absent_link_delete")
        self.ctx.ev(actor, "delete_link", {"g": g.name, "l": [s, so, d, do], "existed": existed})
        return ("delete_link", (s, so, d, do))

    def do_delete_node(self, actor, g):
        leaf = self._pick_node(g, actor, "leaf", lambda i: i != 0 and g.m.is_leaf(i))
        if leaf is None:
            self.ctx.ev(actor, "noop", {"g": g.name})
            return ("noop",)
        nl = [l for l in g.m.links if l[0] == leaf or l[2] == leaf]
        if nl:
            self.ctx.probe("deleted_node_had_links")
        if any(l[1] == -1 for l in nl):
            self.ctx.probe("deleted_node_had_order_links")
        if len({(l[0], l[1]) for l in nl if l[0] == leaf}) < len([l for l in nl if l[0] == leaf]) or \
                len({(l[2], l[3]) for l in nl if l[2] == leaf}) < len([l for l in nl if l[2] == leaf]):
            self.ctx.probe("deleted_node_had_multilinked_port")
        ret = self.sut('delete_node', g.h.delete_node, self._handle(g, leaf))
        mn = g.m.delete_node(leaf)
        g.ever_deleted = True
        self.ctx.checked("delete_node-return")
        if ret is None or ret.op is not mn.op:
            self.ctx.violate("delete_node", "returned-data", {"idx": leaf, "ret": repr(ret)})
        self.ctx.ev(actor, "delete_node", {"g": g.name, "idx": leaf, "links": len(nl)})
        return ("delete_node", leaf)

    def do_insert(self, actor, g):
        ch = self.ctx.ch
        src = ch.pick(self.graphs[1:], "ins-src")
        parent = self._pick_node(g, actor, "ins-parent")
        before = g.m.snapshot()
        src_before = src.m.snapshot()
        default_parent = ch.coin(1, 6, "ins-default-parent")
        if src.ever_deleted:
            self.ctx.probe("insert_source_with_holes")
        if g.m.dead:
            self.ctx.probe("insert_into_freed_indices")
        try:
            if default_parent:
                mapping = g.h.insert_hugr(src.h)
                parent = None
            else:
                mapping = g.h.insert_hugr(src.h, self._handle(g, parent))
        except Exception as e:  # noqa: BLE001
            self.ctx.ev(actor, "insert_hugr", {"g": g.name, "src": src.name, "parent": parent}, f"raised {type(e).__name__}")
            self.ctx.violate("insert", f"raised:{type(e).__name__}", {"src_nodes": sorted(src.m.nodes),
                             "src_parents": {i: n.parent for i, n in src.m.nodes.items()}}, stop=True)
        from hugr.hugr.node_port import Node as _Node

        ctx = self.ctx
        ctx.checked("insert-mapping")
        mp = {}
        bad = None
        try:
            for k, v in mapping.items():
                mp[k.idx] = v.idx
        except Exception as e:  # noqa: BLE001
            bad = f"mapping not Node->Node: {e!r}"
        if bad is None:
            if sorted(mp) != sorted(src.m.nodes):
                bad = "not-total-on-live-nodes"
            elif len(set(mp.values())) != len(mp):
                bad = "not-injective"
            elif any(v in before.nodes for v in mp.values()):
                bad = "image-overlaps-existing"
        ctx.ev(actor, "insert_hugr", {"g": g.name, "src": src.name, "parent": parent}, sorted(mp.items()) if not bad else bad)
        if bad:
            ctx.violate("insert", f"mapping:{bad}", {"mapping": repr(mapping)}, stop=True)
        if parent is None:
            # default parent: "Parent for root of inserted HUGR. Defaults to None." -> add_node(parent=None) -> root
            parent = 0
        g.m.insert(src.m, parent, mp)
        for oi, ni in mp.items():
            g.handles[ni] = mapping[_Node(oi)]
            g.spec[ni] = src.spec[oi]
            g.req_outs.pop(ni, None)
            if ni in before.dead:
                ctx.probe("freed_index_reused")
                g.reused = True
        self.last_insert = (g, src, mp, before, src_before, parent, mapping)
        ctx.probe("insert_hugr")
        return ("insert", mp)

    # -- oracles -------------------------------------------------------------------------
    def compare(self, g: G, op: str):
        try:
            return self._compare(g, op)
        except Exception as e:  # noqa: BLE001
            import traceback
            tb = traceback.extract_tb(e.__traceback__)
            if tb and "/hugrsim/" in tb[-1].filename:
                raise  # harness bug
            self.ctx.violate("query", f"raised:{type(e).__name__}:after-{op}", repr(e), stop=True)

    def _compare(self, g: G, op: str):
        """Every query of the store against the model.  Violations carry the step kind in cls."""
        from hugr.hugr.node_port import Direction, Node

        ctx, h, m = self.ctx, g.h, g.m
        V = lambda clause, cls, detail: ctx.violate(clause, f"{cls}:after-{op}", detail)  # noqa: E731
        live = sorted(m.nodes)
        # node set / count / iteration
        ctx.checked("nodes")
        it = [n.idx for n in h]
        if sorted(it) != live or len(it) != len(set(it)):
            V("nodes", "iteration", {"got": it, "expected": live})
        if len(h) != len(live) or h.num_nodes() != len(live):
            V("nodes", "count", {"len": len(h), "num_nodes": h.num_nodes(), "expected": len(live)})
        # the other ways to iterate: nodes(), items(), keys(), values() pair every live index with the data lookup gives
        for name in ("nodes", "items"):
            try:
                pairs = [(n.idx, d) for n, d in getattr(h, name)()]
            except Exception as e:  # noqa: BLE001
                V("nodes", f"{name}()-raised-{type(e).__name__}", {})
                continue
            if sorted(i for i, _ in pairs) != live:
                V("nodes", f"{name}()-indices", {"got": [i for i, _ in pairs], "expected": live})
            elif any(d is not h[Node(i)] for i, d in pairs):
                V("nodes", f"{name}()-pairs-index-with-other-data", {"got": [i for i, d in pairs if d is not h[Node(i)]]})
        if sorted(n.idx for n in h.keys()) != live or len(list(h.values())) != len(live):
            V("nodes", "keys()/values()", {})
        if [c.idx for c in h.children()] != m.nodes[h.root.idx].children:
            V("hierarchy", "children()-of-the-root-by-default", {"got": [c.idx for c in h.children()]})
        # lookup of live and dead handles
        ctx.checked("lookup")
        for d in list(m.dead) + [max(live + m.dead) + 1]:
            try:
                h[Node(d)]
                V("lookup", "dead-node-reachable", {"idx": d})
            except KeyError:
                pass
            if Node(d) in h:
                V("lookup", "dead-node-contained", {"idx": d})
        maxoff = 3
        oidx, iidx, max_o, max_i, by_src, by_dst = {}, {}, {}, {}, {}, {}
        for (s, so, d, do) in m.links:
            maxoff = max(maxoff, so, do)
            oidx.setdefault((s, so), Counter())[(d, do)] += 1
            iidx.setdefault((d, do), Counter())[(s, so)] += 1
            max_o[s] = max(max_o.get(s, -1), so)
            max_i[d] = max(max_i.get(d, -1), do)
            by_src.setdefault(s, []).append((so, d, do))
            by_dst.setdefault(d, []).append((do, s, so))
        none = Counter()
        for i in live:
            nd = h[Node(i)]
            rn = m.nodes[i]
            ctx.checked("hierarchy")
            if nd.op is not rn.op:
                V("lookup", "op", {"idx": i, "got": repr(nd.op)})
            p = nd.parent.idx if nd.parent is not None else None
            if p != rn.parent:
                V("hierarchy", "parent", {"idx": i, "got": p, "expected": rn.parent})
            kids = [c.idx for c in h.children(Node(i))]
            if kids != rn.children:
                V("hierarchy", "children", {"idx": i, "got": kids, "expected": rn.children})
            if nd.metadata != rn.metadata:
                V("lookup", "metadata", {"idx": i, "got": repr(nd.metadata), "expected": repr(rn.metadata)})
            # port counts are lower bounds
            ctx.checked("port-count")
            nin, nout = h.num_in_ports(Node(i)), h.num_out_ports(Node(i))
            if h.num_ports(Node(i), Direction.INCOMING) != nin or h.num_ports(Node(i), Direction.OUTGOING) != nout:
                V("port-count", "num_ports-disagrees", {"idx": i})
            if nin < max_i.get(i, -1) + 1 or nout < max_o.get(i, -1) + 1:
                V("port-count", "below-highest-offset-in-use", {"idx": i, "in": nin, "out": nout,
                  "max_in": max_i.get(i, -1), "max_out": max_o.get(i, -1)})
            if g.req_outs.get(i) is not None and nout < g.req_outs[i]:
                V("port-count", "below-requested", {"idx": i, "out": nout, "requested": g.req_outs[i]})
            # linked_ports from both ends, all offsets incl. order
            ctx.checked("linked_ports")
            # (every offset up to a little beyond what the model and the store know of this node, a sample beyond)
            lim_o = min(maxoff, max(max_o.get(i, -1), nout - 1, 3)) + 2
            lim_i = min(maxoff, max(max_i.get(i, -1), nin - 1, 3)) + 2
            node_i = Node(i)
            for off in [*range(-1, max(lim_o, lim_i)), maxoff + 1]:
                if off < lim_o or off == maxoff + 1:
                    got = [(q.node.idx, q.offset) for q in h.linked_ports(node_i.out(off))]
                    exp = oidx.get((i, off))
                    if (got or exp) and Counter(got) != (exp or none):
                        exp = exp or none
                        cls = "out-stops-early" if len(got) < sum(exp.values()) else "out-extra"
                        V("linked_ports", cls, {"port": [i, off], "got": sorted(got), "expected": sorted(exp.elements())})
                if off < lim_i or off == maxoff + 1:
                    got = [(q.node.idx, q.offset) for q in h.linked_ports(node_i.inp(off))]
                    exp = iidx.get((i, off))
                    if (got or exp) and Counter(got) != (exp or none):
                        exp = exp or none
                        cls = "in-stops-early" if len(got) < sum(exp.values()) else "in-extra"
                        V("linked_ports", cls, {"port": [i, off], "got": sorted(got), "expected": sorted(exp.elements())})
            # per-port listings
            ctx.checked("listings")
            outs = list(h.outgoing_links(Node(i)))
            ins = list(h.incoming_links(Node(i)))
            offs = [p.offset for p, _ in outs]
            if len(offs) != len(set(offs)) or any(p.node.idx != i for p, _ in outs):
                V("listings", "outgoing-duplicate-port", {"idx": i, "offsets": offs})
            got = Counter((p.offset, q.node.idx, q.offset) for p, qs in outs for q in qs)
            exp = Counter(x for x in by_src.get(i, ()) if x[0] >= 0)
            if got != exp:
                V("listings", "outgoing_links", {"idx": i, "got": sorted(got.elements()), "expected": sorted(exp.elements())})
            offs = [p.offset for p, _ in ins]
            if len(offs) != len(set(offs)) or any(p.node.idx != i for p, _ in ins):
                V("listings", "incoming-duplicate-port", {"idx": i, "offsets": offs})
            got = Counter((p.offset, q.node.idx, q.offset) for p, qs in ins for q in qs)
            exp = Counter(x for x in by_dst.get(i, ()) if x[0] >= 0)
            if got != exp:
                V("listings", "incoming_links", {"idx": i, "got": sorted(got.elements()), "expected": sorted(exp.elements())})
            # (num_outgoing / num_incoming are not judged: they count the ports the listings enumerate, linked or not,
            #  which is neither "links" as their docstrings say nor a query the property lists)
            got = Counter(n.idx for n in h.outgoing_order_links(Node(i)))
            exp = Counter(x[1] for x in by_src.get(i, ()) if x[0] == -1)
            if got != exp:
                V("listings", "outgoing_order_links", {"idx": i, "got": sorted(got.elements()), "expected": sorted(exp.elements())})
            got = Counter(n.idx for n in h.incoming_order_links(Node(i)))
            exp = Counter(x[1] for x in by_dst.get(i, ()) if x[0] == -1)
            if got != exp:
                V("listings", "incoming_order_links", {"idx": i, "got": sorted(got.elements()), "expected": sorted(exp.elements())})
        # links() as a multiset
        ctx.checked("links")
        got = Counter((a.node.idx, a.offset, b.node.idx, b.offset) for a, b in h.links())
        exp = m.link_counter()
        if got != exp:
            dead = set(m.dead)
            dangling = [l for l in got if (l[0] not in m.nodes or l[2] not in m.nodes)]
            if dangling:
                kind = "order" if any(l[1] == -1 for l in dangling) else "value"
                V("links", f"dangling-link-mentions-deleted-node:{kind}", {"dangling": sorted(dangling)})
            else:
                V("links", "multiset", {"extra": sorted((got - exp).elements()), "missing": sorted((exp - got).elements())})
        # has_link on every model link and on a few absent pairs
        ctx.checked("has_link")
        for (s, so, d, do) in set(m.links):
            if not h.has_link(Node(s).out(so), Node(d).inp(do)):
                V("has_link", "false-for-existing", {"l": [s, so, d, do]})
        for s in live[:4]:
            for d in live[-3:]:
                for so, do in ((0, 0), (-1, -1), (1, 0)):
                    if (s, so, d, do) not in m.links and h.has_link(Node(s).out(so), Node(d).inp(do)):
                        V("has_link", "true-for-absent", {"l": [s, so, d, do]})
        # ports of dead nodes carry nothing
        for d in m.dead:
            for off in range(-1, maxoff + 1):
                if list(h.linked_ports(Node(d).out(off))) or list(h.linked_ports(Node(d).inp(off))):
                    V("links", "dead-node-port-still-linked", {"idx": d, "offset": off})
        return not ctx.violations


def guard_model(fn):
    def wrapped(*a, **kw):
        try:
            return fn(*a, **kw)
        except AssertionError as e:
            raise HarnessError(str(e)) from e
    return wrapped
