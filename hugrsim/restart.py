"""The process boundary: a reader node started by the simulator in a fresh interpreter with a
different PYTHONHASHSEED.  Only the stored bytes cross; nothing else survives the 'restart'."""

from __future__ import annotations

import json
import os
import subprocess
import sys

_reader = None
_served = 0
RESTART_EVERY = 200
stats = {"restarts": 0, "requests": 0}


def reader_hashseed() -> int:
    hs = int(os.environ.get("PYTHONHASHSEED", "0") or 0)
    return (hs * 2654435761 + 12345) % (2 ** 32) or 1


def _start():
    global _reader, _served
    env = dict(os.environ)
    env["PYTHONHASHSEED"] = str(reader_hashseed())
    _reader = subprocess.Popen([sys.executable, "-c", "from hugrsim.reader_main import main; main()"],
                               stdin=subprocess.PIPE, stdout=subprocess.PIPE, env=env, text=True, bufsize=1)
    _served = 0
    stats["restarts"] += 1


def request(req: dict) -> dict:
    """Synchronous request to the reader node (restarted every RESTART_EVERY objects)."""
    global _served
    if _reader is None or _reader.poll() is not None or _served >= RESTART_EVERY:
        stop()
        _start()
    _served += 1
    stats["requests"] += 1
    _reader.stdin.write(json.dumps(req) + "\n")
    _reader.stdin.flush()
    line = _reader.stdout.readline()
    if not line:
        stop()
        return {"error": "ReaderDied", "mro": [], "msg": "reader process exited"}
    return json.loads(line)


def stop():
    global _reader
    if _reader is not None:
        try:
            _reader.stdin.close()
            _reader.wait(timeout=5)
        except Exception:  # noqa: BLE001
            _reader.kill()
        _reader = None
