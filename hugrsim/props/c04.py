"""C04 — the graph store agrees with a sequential port-multigraph model (engine A)."""

from __future__ import annotations

from ..engines.a_graph import GraphSim
from ..kernel import digest

PROP = "C04"
NONTRIVIAL_STEPS = 3


def run(ctx):
    ch = ctx.ch
    prof = {
        "in_range": ch.coin(1, 4, "p-inrange"),
        "delete": ch.coin(3, 4, "p-delete"),
        "insert": ch.coin(3, 4, "p-insert"),
        "meta": ch.coin(1, 2, "p-meta"),
        "max_nodes": 6 + ch.draw(20, "p-maxnodes"),
    }
    ctx.profile = prof
    sim = GraphSim(ctx, in_range=prof["in_range"], allow_delete=prof["delete"], allow_insert=prof["insert"],
                   use_meta=prof["meta"], max_nodes=prof["max_nodes"])
    cap = 120 if ctx.cfg.get("tier") == "thorough" else 60
    nsteps = 3 + ch.draw(cap, "nsteps")
    actors = list(range(sim.n_clients)) + [g.name for g in sim.graphs[1:]]
    for g in sim.graphs:
        sim.compare(g, "init")
    for _ in range(nsteps):
        a = actors[ch.draw(len(actors), "sched")]
        if isinstance(a, str):
            g = next(x for x in sim.graphs if x.name == a)
        else:
            g = sim.graphs[0]
        r = sim.step(a, g)
        ok = sim.compare(g, r[0])
        if r[0] == "insert":
            # the source must not be modified by insertion
            src = sim.last_insert[1]
            sim.compare(src, "insert-source")
        ctx.states.append(digest(g.m.state_digest_obj()))
        if ctx.violations:
            return
