"""C04 — the graph store agrees with a sequential port-multigraph model (engine A)."""

from __future__ import annotations

from ..engines.a_graph import GraphSim
from ..kernel import digest

PROP = "C04"
NONTRIVIAL_STEPS = 3


def run(ctx):
    ch = ctx.ch
    prof = {
        "in_range": ch.coin(1, 4, "p-inrange"),
        "delete": ch.coin(3, 4, "p-delete"),
        "insert": ch.coin(3, 4, "p-insert"),
        "meta": ch.coin(1, 2, "p-meta"),
        "max_nodes": 6 + ch.draw(20, "p-maxnodes"),
    }
    large = ch.coin(1, 30, "size-class-large")
    if large:
        # size class: a store of up to ~150 nodes and a long history (many deletions, many reused indices, many
        # links per port)
        prof["max_nodes"] = 40 + ch.draw(60, "p-maxnodes-large")
        prof["large"] = True
        ctx.probe("large_store")
    ctx.profile = prof
    adopt = None
    if ch.coin(1, 4, "adopt-builder-product"):
        # the shared graph starts as a builder product (containers, non-local and order links, metadata)
        from ..engines.b_builders import BuilderSim, Discard
        try:
            bs = BuilderSim(ctx, features={"cond": True, "loop": True, "cfg": True, "calls": True, "poly": False, "meta": True,
                                            "insert": ch.coin(1, 3, "f-insert")}, max_steps=6 + ch.draw(20, "max-steps"))
            bs.run()
            adopt = bs.hugr
            prof["max_nodes"] = len(adopt) + 8
            prof["adopted"] = bs.root_kind
            ctx.probe("adopted_builder_product")
        except Discard as d:
            ctx.discard = str(d)
            return
    sim = GraphSim(ctx, in_range=prof["in_range"], allow_delete=prof["delete"], allow_insert=prof["insert"],
                   use_meta=prof["meta"], max_nodes=prof["max_nodes"], adopt_hugr=adopt)
    cap = 120 if ctx.cfg.get("tier") == "thorough" else 60
    nsteps = 3 + ch.draw(cap, "nsteps") + (80 + ch.draw(120, "nsteps-large") if large else 0)
    actors = list(range(sim.n_clients)) + [g.name for g in sim.graphs[1:]]
    for g in sim.graphs:
        sim.compare(g, "init")
    for _ in range(nsteps):
        a = actors[ch.draw(len(actors), "sched")]
        if isinstance(a, str):
            g = next(x for x in sim.graphs if x.name == a)
        else:
            g = sim.graphs[0]
        r = sim.step(a, g)
        ok = sim.compare(g, r[0])
        if r[0] == "insert":
            # the source must not be modified by insertion
            src = sim.last_insert[1]
            sim.compare(src, "insert-source")
        ctx.states.append(digest(g.m.state_digest_obj()))
        if ctx.violations:
            return
