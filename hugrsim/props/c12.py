"""C12 — the model export is well scoped and faithful (engine B products with a Module root)."""

from __future__ import annotations

import json

from ..engines.b_builders import BuilderSim, Discard
from ..oracles import modelcheck, refvalidate

PROP = "C12"
NONTRIVIAL_STEPS = 3
_fields_checked = False


def run(ctx):
    global _fields_checked
    ch = ctx.ch
    if not _fields_checked:
        _fields_checked = True
        ctx.checked("fields-static")
        for (cls, det) in modelcheck.check_fields():
            if cls.startswith("harness"):
                from ..kernel import HarnessError
                raise HarnessError(f"modelcheck table out of date: {det}")
            ctx.violate("fields", cls, det)
    feats = {"cond": ch.coin(3, 4, "f-cond"), "loop": ch.coin(3, 4, "f-loop"), "cfg": ch.coin(3, 4, "f-cfg"),
             "calls": True, "poly": ch.coin(1, 2, "f-poly"), "meta": ch.coin(3, 4, "f-meta"), "insert": ch.coin(1, 3, "f-insert"),
             "second_ext": ch.coin(1, 2, "f-second-ext"), "stray_links": ch.coin(1, 2, "f-stray-links"), "odd_names": ch.coin(1, 2, "f-odd-names")}
    try:
        sim = BuilderSim(ctx, root_kind="module", features=feats, max_steps=15 + ch.draw(50, "max-steps"))
        ctx.profile = {"root": "module", **feats}

        def mid_export(sim):
            # export at quiescent points of the history as well (the exporter must not remember anything)
            from ..engines.b_builders import Actor, ModuleCtl
            if any((isinstance(a, Actor) and not a.closed) or (not isinstance(a, (Actor, ModuleCtl)) and not a.closed) for a in sim.actors):
                if ch.coin(1, 10, "export-incomplete"):
                    # fault, then workload: exporting while operations are incomplete fails; the final export must not care
                    try:
                        sim.hugr.to_model()
                    except Exception:  # noqa: BLE001
                        ctx.fault("export_of_incomplete_hugr_failed")
                return
            if len(sim.hugr) > 3 and ch.coin(1, 6, "mid-history-export"):
                try:
                    sim.hugr.to_model()
                    ctx.probe("exported_mid_history")
                    ctx.ev("query", "to_model")
                    if ch.coin(1, 2, "edit-structured-metadata-in-place"):
                        # the client keeps working on a structured metadata value it attached earlier (same object,
                        # new content); the final export must show the content as it is then
                        for n, nd in list(sim.hugr.nodes()):
                            v = nd.metadata.get("m")
                            if isinstance(v, list):
                                v.append("later")
                            elif isinstance(v, dict):
                                v["later"] = [len(v)]
                            else:
                                continue
                            ctx.probe("structured_metadata_edited_in_place_after_export")
                            ctx.ev("client", "metadata[m] edited in place", n.idx)
                            break
                except Exception:  # noqa: BLE001  judged at the end on the complete module
                    pass
        sim.after_step = mid_export
        sim.run()
    except Discard as d:
        ctx.discard = str(d)
        return
    doc = json.loads(sim.hugr.to_json())
    if refvalidate.validate(doc):
        ctx.discard = "invalid-by-C01-oracle"
        return
    ctx.checked("export")
    try:
        mod = sim.hugr.to_model()
    except Exception as e:  # noqa: BLE001
        ctx.violate("export", f"raised:{type(e).__name__}", str(e)[:200])
        return
    modelcheck.Checker(ctx, sim.hugr, mod, doc).run()
