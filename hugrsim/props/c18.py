"""C18 — BiMap stays a bijection: seeded operation histories vs a two-dict reference model."""

from __future__ import annotations

PROP = "C18"
NONTRIVIAL_STEPS = 2

ALPHA = [0, "", (), 1, "a", (1,), 2]


def fresh(x):
    """An object equal to x but, where the language allows it, not identical to it (a map must work by equality)."""
    if isinstance(x, tuple) and x:
        return tuple(list(x))
    if isinstance(x, str) and x:
        return "".join(list(x))
    return x


BIG = [10 ** 30, "key-" * 8, (1, (2, 3))]


class Model:
    def __init__(self):
        self.fwd = {}
        self.bck = {}

    def insert(self, k, v):
        if k in self.fwd:
            del self.bck[self.fwd[k]]
            del self.fwd[k]
        if v in self.bck:
            del self.fwd[self.bck[v]]
            del self.bck[v]
        self.fwd[k] = v
        self.bck[v] = k

    def del_left(self, k):
        if k not in self.fwd:
            return False
        del self.bck[self.fwd[k]]
        del self.fwd[k]
        return True

    def del_right(self, v):
        if v not in self.bck:
            return False
        del self.fwd[self.bck[v]]
        del self.bck[v]
        return True


def _r(x):
    return repr(x)


def compare(ctx, bm, m, op, alpha=None):
    """Full observation of the real map through its public API vs the model."""
    ctx.checked("state")
    problems = []
    try:
        items = list(bm.items())
        if len(items) != len(set(items)) or dict(items) != m.fwd:
            problems.append(("items", _r(items), _r(m.fwd)))
        if len(bm) != len(m.fwd):
            problems.append(("len", len(bm), len(m.fwd)))
        it = list(iter(bm))
        if sorted(map(_r, it)) != sorted(map(_r, m.fwd)):
            problems.append(("iter", _r(it), _r(list(m.fwd))))
        for a in (alpha or ALPHA + BIG):
            er = m.fwd.get(a)
            el = m.bck.get(a)
            if bm.get_right(a) != er or type(bm.get_right(a)) is not type(er):
                problems.append(("get_right", _r(a), _r(bm.get_right(a)), _r(er)))
            if bm.get_left(a) != el or type(bm.get_left(a)) is not type(el):
                problems.append(("get_left", _r(a), _r(bm.get_left(a)), _r(el)))
            if (a in bm) != (a in m.fwd):
                problems.append(("contains", _r(a)))
            try:
                got = bm[a]
                if a not in m.fwd or got != m.fwd[a]:
                    problems.append(("getitem", _r(a), _r(got)))
            except KeyError:
                if a in m.fwd:
                    problems.append(("getitem-keyerror", _r(a)))
        # the two public views are exact inverses
        if {v: k for k, v in bm.fwd.items()} != bm.bck or {k: v for v, k in bm.bck.items()} != bm.fwd:
            problems.append(("inverse", _r(bm.fwd), _r(bm.bck)))
    except Exception as e:  # noqa: BLE001
        problems.append(("query-raised", repr(e)))
    if problems:
        ctx.violate("state", f"after-{op}:{problems[0][0]}", {"problems": problems[:4], "model": _r(m.fwd)}, stop=True)


def run(ctx):
    from hugr.utils import BiMap, NotBijection

    ch = ctx.ch
    m = Model()
    big = ch.coin(1, 3, "p-big-keys")
    alpha = ALPHA + BIG if big else ALPHA
    if big:
        ctx.probe("equal_but_not_identical_keys")
    if ch.coin(1, 5, "two-maps-one-dict"):
        return run_two_maps(ctx)
    large = ch.coin(1, 10, "size-class-large")
    if large:
        # size class: a map of up to ~100 pairs and a long history (thresholds, resizing of the underlying tables)
        alpha = list(range(60)) + [f"s{i}" for i in range(30)] + [(i,) for i in range(10)]
        ctx.probe("large_map")
    # construction
    kind = ch.draw(4, "init")
    if kind == 0:
        bm = BiMap()
        ctx.ev(0, "BiMap()")
    else:
        n = ch.draw(5, "init-n")
        pairs = {}
        for _ in range(n):
            pairs[ch.pick(ALPHA, "k")] = ch.pick(ALPHA, "v")
        injective = len(set(pairs.values())) == len(pairs)
        try:
            bm = BiMap(dict(pairs))
            ok = True
        except NotBijection:
            ok = False
        ctx.ev(0, "BiMap(map)", _r(pairs), "ok" if ok else "NotBijection")
        ctx.checked("init")
        ctx.steps += 1
        if injective and not ok:
            ctx.violate("init", "injective-rejected", _r(pairs), stop=True)
        if not injective:
            ctx.probe("non_injective_init")
            if ok:
                ctx.violate("init", "non-injective-accepted", _r(pairs), stop=True)
            return
        for k, v in pairs.items():
            m.insert(k, v)
    compare(ctx, bm, m, "init")
    nsteps = 1 + ch.draw(40, "nsteps") + (100 + ch.draw(300, "nsteps-large") if large else 0)
    for _ in range(nsteps):
        if ch.coin(1, 12, "snapshot"):
            # a client takes a snapshot of the map (copy / deep copy / pickle): the snapshot is an equal, independent map
            # and the original is what it was
            import copy
            import pickle
            how = ch.draw(4, "snapshot-how")
            hname = ["copy.copy", "copy.deepcopy", "pickle", "BiMap(items)"][how]
            try:
                snap = [copy.copy, copy.deepcopy, lambda x: pickle.loads(pickle.dumps(x)), lambda x: BiMap(dict(x.items()))][how](bm)
            except Exception as e:  # noqa: BLE001
                ctx.violate("exception", f"snapshot:{hname}:{type(e).__name__}", {"model": _r(m.fwd)}, stop=True)
            ctx.ev(0, "snapshot", hname)
            ctx.probe("snapshot_taken")
            ctx.steps += 1
            sm = Model()
            sm.fwd, sm.bck = dict(m.fwd), dict(m.bck)
            compare(ctx, snap, sm, "snapshot:" + hname + ":the-snapshot", alpha if large else None)
            compare(ctx, bm, m, "snapshot:" + hname + ":the-original", alpha if large else None)
            if how != 0 and ch.coin(1, 2, "continue-on-the-snapshot"):
                bm = snap  # the history goes on with the snapshot (the original is dropped)
            continue
        op = ch.weighted([8, 8, 6, 2, 2, 2] if large and len(m.fwd) < 70 else [4, 4, 3, 2, 2, 2], "op")
        a, b = ch.pick(alpha, "a"), ch.pick(alpha, "b")
        if big:
            # rebuild the arguments at run time: equal to earlier ones, not the same objects
            a = int(str(a)) if isinstance(a, int) and a > 10 ** 20 else (tuple(list(a)) if isinstance(a, tuple) and a else ("".join(list(a)) if isinstance(a, str) and a else a))
            b = int(str(b)) if isinstance(b, int) and b > 10 ** 20 else (tuple(list(b)) if isinstance(b, tuple) and b else ("".join(list(b)) if isinstance(b, str) and b else b))
        name = ["insert_left", "insert_right", "setitem", "delete_left", "delete_right", "delitem"][op]
        exc = None
        before_shared_key = a in m.fwd
        try:
            if op == 0:
                bm.insert_left(a, b)
            elif op == 1:
                bm.insert_right(b, a)  # right key b, left value a
            elif op == 2:
                bm[a] = b
            elif op == 3:
                bm.delete_left(a)
            elif op == 4:
                bm.delete_right(a)
            else:
                del bm[a]
        except KeyError:
            exc = "KeyError"
        except Exception as e:  # noqa: BLE001
            exc = type(e).__name__
        ctx.steps += 1
        if op <= 2:
            shares_k = before_shared_key
            shares_v = b in m.bck
            if shares_k and shares_v and m.fwd[a] != b:
                ctx.probe("displace_two_pairs")
            elif shares_k and shares_v:
                ctx.probe("reinsert_same_pair")
            elif shares_k or shares_v:
                ctx.probe("displace_one_pair")
            if a in (0, "", ()) or b in (0, "", ()):
                ctx.probe("falsy_symbol")
            m.insert(a, b)
            expect = None
        elif op == 4:
            expect = None if m.del_right(a) else "KeyError"
        else:
            expect = None if m.del_left(a) else "KeyError"
        ctx.ev(0, name, [_r(a), _r(b)] if op <= 2 else [_r(a)], exc or "ok")
        ctx.checked("exception")
        if exc != expect:
            if expect == "KeyError":
                ctx.probe("absent_delete")
            ctx.violate("keyerror" if "KeyError" in (exc, expect) else "exception",
                        f"{name}:got-{exc}-expected-{expect}", {"arg": _r(a), "model": _r(m.fwd)}, stop=True)
        if expect == "KeyError":
            ctx.probe("absent_delete")
        compare(ctx, bm, m, name, alpha if large else None)
        if large and len(m.fwd) >= 50:
            ctx.probe("map_of_50_pairs_or_more")
    ctx.profile = {"init": kind, "large": large}


def run_two_maps(ctx):
    """Two maps built from one mapping object (and the caller keeps using that object): two actors, one per map,
    interleaved by the scheduler; each map must follow its own model only."""
    from hugr.utils import BiMap

    ch = ctx.ch
    seed = {}
    for _ in range(1 + ch.draw(4, "seed-n")):
        k, v = ch.pick(ALPHA, "k"), ch.pick(ALPHA, "v")
        if v not in seed.values() and k not in seed:
            seed[k] = v
    ctx.profile = {"two_maps": True}
    ctx.probe("two_maps_from_one_dict")
    if ch.coin(1, 2, "second-from-first-map"):
        # the second map is built from the first one (a BiMap is a mapping): still two independent maps
        first = BiMap(seed)
        maps = [first, BiMap(first)]
        ctx.probe("map_built_from_a_map")
    else:
        maps = [BiMap(seed), BiMap(seed)]
    models = [Model(), Model()]
    for m in models:
        for k, v in seed.items():
            m.insert(k, v)
    ctx.ev(0, "BiMap(seed) x2", _r(seed))
    snapshot = dict(seed)
    for _ in range(2 + ch.draw(20, "nsteps")):
        i = ch.draw(3, "sched")
        ctx.steps += 1
        if i == 2:
            # the caller edits its own dict: neither map may notice
            k, v = ch.pick(ALPHA, "a"), ch.pick(ALPHA, "b")
            seed[k] = v
            snapshot[k] = v
            ctx.ev("caller", "seed[k]=v", [_r(k), _r(v)])
        else:
            bm, m = maps[i], models[i]
            op = ch.draw(3, "op")
            a, b = ch.pick(ALPHA, "a"), ch.pick(ALPHA, "b")
            try:
                if op == 0:
                    bm.insert_left(a, b)
                    m.insert(a, b)
                elif op == 1:
                    if a in m.fwd:
                        bm.delete_left(a)
                        m.del_left(a)
                else:
                    if a in m.bck:
                        bm.delete_right(a)
                        m.del_right(a)
            except Exception as e:  # noqa: BLE001
                ctx.violate("exception", f"two-maps:{type(e).__name__}", {"map": i, "op": op, "arg": _r(a)}, stop=True)
            ctx.ev(i, ["insert_left", "delete_left", "delete_right"][op], [_r(a), _r(b)])
        for j in (0, 1):
            compare(ctx, maps[j], models[j], f"two-maps-step-on-{'caller' if i == 2 else i}")
        ctx.checked("aliasing")
        if seed != snapshot:
            ctx.violate("aliasing", "map-operation-changed-the-callers-dict", {"seed": _r(seed), "expected": _r(snapshot)}, stop=True)
