"""C19 — shot results -> register bitstrings: a shot is a write log; oracle = log replay."""

from __future__ import annotations

import copy
import re
from collections import Counter

PROP = "C19"
NONTRIVIAL_STEPS = 2

# the documented tag convention (module docstring of hugr.qsystem.result)
REG_INDEX = re.compile(r"^([a-z][\w_]*)\[(\d+)\]$")

NAMES = ["a", "b", "c_0"]
VALID_SCALARS = [0, 1, False, True]
NONBITS = [2, -1, 0.5, "1", None, 1.0, 0.0]  # 1.0 == True and 0.0 == False, but a float is not a bit


def is_bit(v):
    return isinstance(v, int) and v in (0, 1)


def bitchar(v):
    return "1" if v else "0"


class Invalid(Exception):
    pass


def replay(entries, skip=()):
    """Reference: replay the entries in order as writes into a register file."""
    regs: dict[str, list[str]] = {}
    for i, (tag, data) in enumerate(entries):
        if i in skip:
            continue
        m = REG_INDEX.match(tag)
        if m is not None:
            name, idx = m.group(1), int(m.group(2))
            if not is_bit(data):
                raise Invalid(i)
            bits = regs.setdefault(name, [])
            if idx >= len(bits):
                bits.extend(["0"] * (idx + 1 - len(bits)))
            bits[idx] = bitchar(data)
        elif isinstance(data, list):
            if not all(is_bit(v) for v in data):
                raise Invalid(i)
            regs[tag] = [bitchar(v) for v in data]
        else:
            if not is_bit(data):
                raise Invalid(i)
            regs[tag] = [bitchar(data)]
    return {k: "".join(v) for k, v in regs.items()}


def expected_bits(entries):
    """Returns (set of acceptable outcomes). An outcome is a dict or the string 'ValueError'.

    A non-bit value that a later entry with the same tag supersedes is ambiguous under the
    statement ("later writes override earlier ones" vs "a non-bit is rejected"): both readings
    are accepted, so the oracle is never stricter than the statement.
    """
    superseded = set()
    last = {}
    for i, (tag, _) in enumerate(entries):
        if tag in last:
            superseded.add(last[tag])
        last[tag] = i
    try:
        return [replay(entries)], False
    except Invalid as e:
        bad = e.args[0]
        if bad not in superseded:
            return ["ValueError"], False
    # ambiguous: drop every superseded invalid entry and see
    skip = set()
    while True:
        try:
            return ["ValueError", replay(entries, skip)], True
        except Invalid as e:
            bad = e.args[0]
            if bad not in superseded:
                return ["ValueError"], False
            skip.add(bad)


def flatten(vs):
    for v in vs:
        if isinstance(v, list):
            yield from flatten(v)
        else:
            yield v


def rep(x):
    return repr(x)


SHARED: list = []  # list objects of the current run that were already given to some shot (reset per run)


LARGE = [False]


def gen_value(ch, nonbits: bool, nested: bool):
    k = ch.weighted([6, 3, 1 if nonbits else 0, 1 if nested else 0, 1 if SHARED else 0], "valkind")
    if k == 4:
        # the caller passes a list it has already used for another entry or shot: the same object
        return ch.pick(SHARED, "shared-list")
    if k == 0:
        return ch.pick(VALID_SCALARS, "bit")
    if k == 1:
        n = ch.draw(4, "len") + (ch.draw(70, "len-large") if LARGE[0] else 0)
        vs = [ch.pick(VALID_SCALARS, "bit") for _ in range(n)]
        if nonbits and ch.coin(1, 8, "badelem") and vs:
            vs[ch.draw(len(vs), "badpos")] = ch.pick(NONBITS, "nonbit")
        SHARED.append(vs)
        return vs
    if k == 2:
        return ch.pick(NONBITS, "nonbit")
    return [[ch.pick(VALID_SCALARS, "bit")], ch.pick(VALID_SCALARS, "bit")]


def gen_tag(ch, odd: bool):
    name = ch.pick(NAMES, "name")
    k = ch.weighted([3, 4, 1 if odd else 0], "tagkind")
    if k == 0:
        return name
    if k == 1:
        return f"{name}[{ch.draw(4, 'idx') + (ch.draw(90, 'idx-large') if LARGE[0] else 0)}]"
    return ch.pick([f"{name.upper()}[1]", f"{name}[01]", f"{name}[1", f"{name}[-1]", f"_{name}[1]", f"2{name}[2]",
                    f"out.{name}[0]", f" {name}[1]", f"X{name}[3]", f"{name}[1] ", f"{name}[0][1]"], "oddtag")


def call(fn, *a, **kw):
    try:
        return fn(*a, **kw)
    except ValueError:
        return "ValueError"
    except Exception as e:  # noqa: BLE001
        return f"EXC:{type(e).__name__}:{e}"


def run(ctx):
    from hugr.qsystem.result import QsysResult, QsysShot

    ch = ctx.ch
    del SHARED[:]
    nonbits = ch.coin(1, 3, "p-nonbits")
    nested = ch.coin(1, 4, "p-nested")
    odd = ch.coin(1, 4, "p-oddtags")
    bools = True
    LARGE[0] = ch.coin(1, 15, "size-class-large")
    nshots = 1 + ch.draw(4, "nshots") + (ch.draw(25, "nshots-large") if LARGE[0] else 0)
    if LARGE[0]:
        ctx.probe("large_result")
    ctx.profile = {"nonbits": nonbits, "nested": nested, "oddtags": odd, "large": LARGE[0]}
    shots = []
    logs = []
    for s in range(nshots):
        # a later shot may start as a copy of an earlier one (same registers/lengths -> strict flags pass)
        if s > 0 and ch.coin(1, 2, "copy-shot"):
            j0 = ch.draw(s, "which")
            base = list(shots[j0].entries)  # the same tuples and list objects as the earlier shot
            shot = QsysShot(base)
            entries = copy.deepcopy(logs[j0])
            ctx.ev(s, "QsysShot(copy)", rep(base))
        else:
            shot = QsysShot()
            entries = []
        nent = ch.draw(7, "nentries") + (ch.draw(40, "nentries-large") if LARGE[0] else 0)
        for _ in range(nent):
            tag, val = gen_tag(ch, odd), gen_value(ch, nonbits, nested)
            if entries and ch.coin(1, 6, "edit-in-place"):
                # `entries` is a public list: a client may also replace / remove a recorded write in place
                j = ch.draw(len(entries), "edit-pos")
                if ch.coin(1, 4, "edit-delete"):
                    del shot.entries[j]
                    del entries[j]
                    ctx.ev(s, "del entries[j]", j)
                    tag, val = (entries[-1] if entries else (tag, val))
                    if not entries:
                        continue
                else:
                    shot.entries[j] = (tag, val)
                    entries[j] = (tag, copy.deepcopy(val))
                    ctx.ev(s, "entries[j] = ...", [j, tag, rep(val)])
                ctx.probe("entries_edited_in_place")
            else:
                shot.append(tag, val)
                entries.append((tag, copy.deepcopy(val)))  # the oracle's log is private: what was written, as it was written
                if isinstance(val, list) and sum(1 for x in SHARED if x is val) + sum(1 for sh in shots for _, v in sh.entries if v is val) + sum(1 for _, v in shot.entries if v is val) > 2:
                    ctx.probe("one_list_object_in_several_entries")
            ctx.steps += 1
            exp, ambiguous = expected_bits(entries)
            got = call(shot.to_register_bits)
            ctx.ev(s, "append", [tag, rep(val)], rep(got))
            ctx.checked("replay")
            if ambiguous:
                ctx.probe("ambiguous_superseded_nonbit")
            if isinstance(val, bool) or (isinstance(val, list) and any(isinstance(v, bool) for v in val)):
                ctx.probe("bool_bit")
            if len(entries) >= 2 and REG_INDEX.match(entries[-2][0]) and not REG_INDEX.match(tag):
                ctx.probe("whole_after_indexed")
            if got not in exp:
                if isinstance(got, str) and got.startswith("EXC:"):
                    ctx.violate("replay", "exception:" + got.split(":")[1], {"entries": rep(entries), "got": got}, stop=True)
                elif got == "ValueError":
                    ctx.violate("reject", "valid-shot-rejected", {"entries": rep(entries)}, stop=True)
                elif exp == ["ValueError"]:
                    ctx.violate("reject", "non-bit-accepted", {"entries": rep(entries), "got": rep(got)}, stop=True)
                elif any(c not in "01" for v in got.values() for c in v):
                    ctx.violate("char", "non-bit-character", {"entries": rep(entries), "got": rep(got)})
                    return
                elif sorted(got) != sorted(exp[-1]):
                    ctx.violate("replay", "register-set", {"entries": rep(entries), "got": rep(got), "expected": rep(exp[-1])}, stop=True)
                else:
                    ctx.violate("replay", "order", {"entries": rep(entries), "got": rep(got), "expected": rep(exp[-1])}, stop=True)
            # as_dict: last value per tag
            ctx.checked("as_dict")
            d = call(shot.as_dict)
            if d != dict(entries):
                ctx.violate("as_dict", "last-value", {"entries": rep(entries), "got": rep(d)}, stop=True)
        shots.append(shot)
        logs.append(entries)

    # multi-shot queries
    per_shot = []
    any_invalid = False
    any_ambiguous = False
    for e in logs:
        exp, amb = expected_bits(e)
        any_ambiguous |= amb
        if exp == ["ValueError"]:
            any_invalid = True
        per_shot.append(exp[-1])
    if shots and ch.coin(1, 4, "repeat-shot-object"):
        # the very same shot object listed again (e.g. a result assembled by concatenating lists)
        j = ch.draw(len(shots), "which-shot")
        shots.append(shots[j])
        logs.append(logs[j])
        per_shot.append(per_shot[j])
        ctx.probe("same_shot_object_listed_twice")
        res = QsysResult(shots)
    else:
        res = QsysResult(shots if ch.coin(1, 2, "as-shots") else [copy.deepcopy(e) for e in logs])
    ctx.steps += 1
    def multi_shot(res, per_shot, logs, combos, label=""):
        for sn, sl in combos:
            ctx.checked("multi-shot" + label)
            got = call(res.register_bitstrings, strict_names=sn, strict_lengths=sl)
            gotc = call(res.register_counts, strict_names=sn, strict_lengths=sl)
            if any_invalid:
                exp = "ValueError"
            else:
                exp = {}
                for d in per_shot:
                    for r, b in d.items():
                        exp.setdefault(r, []).append(b)
                names_differ = any(set(d) != set(per_shot[0]) for d in per_shot)
                lens_differ = any(len({len(b) for b in bs}) > 1 for bs in exp.values())
                if names_differ:
                    ctx.probe("names_differ" + label)
                if lens_differ:
                    ctx.probe("lengths_differ" + label)
                if (sn and names_differ) or (sl and lens_differ):
                    exp = "ValueError"
                    ctx.probe("strict_reject" + label)
            ctx.ev("all", "register_bitstrings" + label, {"strict_names": sn, "strict_lengths": sl}, rep(got))
            if got != exp:
                cls = "strict-not-enforced" if exp == "ValueError" else (
                    "strict-overreject" if got == "ValueError" else "bitstrings")
                ctx.violate("multi-shot", f"{cls}:names={sn},lengths={sl}{label}",
                            {"shots": rep(logs), "got": rep(got), "expected": rep(exp)})
            expc = exp if exp == "ValueError" else {r: Counter(bs) for r, bs in exp.items()}
            if gotc != expc:
                ctx.violate("multi-shot", f"counts:names={sn},lengths={sl}{label}",
                            {"shots": rep(logs), "got": rep(gotc), "expected": rep(expc)})

    if not any_ambiguous:
        multi_shot(res, per_shot, logs, [(False, False), (False, True), (True, False), (True, True)])
        if not any_invalid and not ctx.violations and ch.coin(1, 3, "grow-after-queries"):
            # the result object lives on: one more shot arrives in the public `results` list after the queries above
            # (the last of them strict); it brings a register nobody had and a longer value for an existing one, and
            # every query is made again, strict ones first in some runs.  Same convention, nothing remembered.
            first = next(iter(per_shot[0]), None) if per_shot else None
            extra = [("late_reg", [1, 0, 1])]
            if first is not None and "[" not in first:
                extra.append((first, [1] * (len(per_shot[0][first]) + 2)))
            from hugr.qsystem.result import QsysShot as _Shot
            res.results.append(_Shot(copy.deepcopy(extra)))
            logs = logs + [extra]
            per_shot = per_shot + [expected_bits(extra)[0][-1]]
            ctx.probe("shot_appended_after_queries")
            ctx.fault("result-grows-after-queries")
            combos = [(True, True), (True, False), (False, True), (False, False)]
            k = ch.draw(4, "requery-rotation")
            multi_shot(res, per_shot, logs, combos[k:] + combos[:k], ":after-growth")
    # collated counts
    ctx.checked("collate")
    try:
        exp = Counter()
        for e in logs:
            tags: dict[str, list] = {}
            for tag, v in e:
                tags.setdefault(tag, []).append(v)
            key = []
            for tag, vs in tags.items():
                flat = list(flatten(vs))
                if not all(is_bit(v) for v in flat):
                    raise Invalid()
                key.append((tag, "".join(bitchar(v) for v in flat)))
            exp[tuple(sorted(key))] += 1
    except Invalid:
        exp = "ValueError"
    got = call(res.collated_counts)
    if isinstance(got, Counter):
        g2 = Counter()
        for k, n in got.items():
            g2[tuple(sorted(k))] += n
        got = g2
    ctx.ev("all", "collated_counts", None, rep(got))
    if got != exp:
        bad_char = isinstance(got, Counter) and any(c not in "01" for k in got for _, s in k for c in s)
        ctx.violate("collate", "non-bit-character" if bad_char else "counts",
                    {"shots": rep(logs), "got": rep(got), "expected": rep(exp)})
    # collate_tags per shot
    for shot, e in zip(shots, logs):
        ctx.checked("collate")
        tags = {}
        for tag, v in e:
            tags.setdefault(tag, []).append(v)
        if call(shot.collate_tags) != tags:
            ctx.violate("collate", "collate_tags", {"entries": rep(e)})
