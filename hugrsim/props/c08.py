"""C08 — inserting a HUGR embeds it isomorphically and disturbs nothing else.

Leg 1 (engine A): insert_hugr between graphs that both have a history (holes, reused indices,
multi-links, order links, metadata).  Leg 2 (engine B, when available): the builders'
insert_nested / insert_cfg / insert_conditional / insert_tail_loop.
"""

from __future__ import annotations

from ..engines.a_graph import GraphSim
from ..kernel import digest
from ..oracles import iso

PROP = "C08"
NONTRIVIAL_STEPS = 3


def run(ctx):
    ch = ctx.ch
    leg = ch.weighted([3, 2], "leg") if builder_leg_available() else 0
    if leg == 1:
        return run_builder_leg(ctx)
    prof = {"leg": "graph", "in_range": ch.coin(1, 4, "p-inrange"), "delete": ch.coin(4, 5, "p-delete"),
            "meta": ch.coin(2, 3, "p-meta"), "max_nodes": 8 + ch.draw(25, "p-maxnodes")}
    ctx.profile = prof
    sim = GraphSim(ctx, in_range=prof["in_range"], allow_delete=prof["delete"], allow_insert=True,
                   use_meta=prof["meta"], max_nodes=prof["max_nodes"], n_aux=1 + ch.draw(2, "n-aux"))
    nsteps = 4 + ch.draw(50, "nsteps")
    actors = list(range(sim.n_clients)) + [g.name for g in sim.graphs[1:]]
    inserts = 0
    for _ in range(nsteps):
        a = actors[ch.draw(len(actors), "sched")]
        g = next(x for x in sim.graphs if x.name == a) if isinstance(a, str) else sim.graphs[0]
        force_insert = g is sim.graphs[0] and ch.coin(1, 5, "force-insert") and len(g.m.nodes) < sim.max_nodes + 10
        if force_insert:
            src = sim.graphs[1:][0] if len(sim.graphs) == 2 else None
            a_before = iso.observe(g.h)
            b_befores = {x.name: iso.observe(x.h) for x in sim.graphs[1:]}
            ctx.steps += 1
            r = sim.do_insert(a, g)
        else:
            a_before = iso.observe(g.h) if g is sim.graphs[0] else None
            b_befores = {x.name: iso.observe(x.h) for x in sim.graphs[1:]} if a_before is not None else {}
            r = sim.step(a, g)
        if r[0] == "insert":
            inserts += 1
            tgt, src, mp, _mb, _sb, parent, _mapping = sim.last_insert
            iso.check_insert(ctx, a_before, b_befores[src.name], iso.observe(tgt.h), iso.observe(src.h), mp, parent)
            if any(n["metadata"] for n in b_befores[src.name]["nodes"].values()):
                ctx.probe("inserted_nodes_with_metadata")
            if any(k > 1 for k in b_befores[src.name]["links"].values()):
                ctx.probe("inserted_parallel_links")
            if any(l[1] == -1 for l in b_befores[src.name]["links"]):
                ctx.probe("inserted_order_links")
            if sorted(mp.values()) != [mp[k] for k in sorted(mp)]:
                ctx.probe("non_monotone_mapping")
            ctx.states.append(digest(tgt.m.state_digest_obj()))
        if inserts and r[0] == "edit_meta":
            # after an insertion the two HUGRs share nothing: an in-place metadata edit (also deep inside a nested value)
            # on either side shows on that side only
            ctx.checked("independent-after-insert")
            for gx in sim.graphs:
                for i, rn in gx.m.nodes.items():
                    got = gx.h[gx.handles[i]].metadata
                    if got != rn.metadata:
                        ctx.violate("frame" if gx is sim.graphs[0] else "source-unmodified", "metadata-changed-by-an-edit-in-the-other-hugr",
                                    {"graph": gx.name, "node": i, "got": repr(got)[:200], "expected": repr(rn.metadata)[:200]})
                        break
        if ctx.violations:
            return
    if inserts == 0 and not ctx.violations:
        # every run performs at least one insertion
        g = sim.graphs[0]
        a_before = iso.observe(g.h)
        b_befores = {x.name: iso.observe(x.h) for x in sim.graphs[1:]}
        ctx.steps += 1
        sim.do_insert(0, g)
        tgt, src, mp, _mb, _sb, parent, _mapping = sim.last_insert
        iso.check_insert(ctx, a_before, b_befores[src.name], iso.observe(tgt.h), iso.observe(src.h), mp, parent)


def builder_leg_available():
    try:
        from ..engines import b_builders  # noqa: F401
        return hasattr(b_builders, "run_insert_leg")
    except ImportError:
        return False


def run_builder_leg(ctx):
    from ..engines import b_builders
    return b_builders.run_insert_leg(ctx)
