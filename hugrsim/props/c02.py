"""C02 — JSON round trip of a HUGR is lossless and a fixed point (engines A+B+C)."""

from __future__ import annotations

from ..engines import c_persist

PROP = "C02"
NONTRIVIAL_STEPS = 3


def run(ctx):
    ch = ctx.ch
    ctx.profile = {}
    prod = c_persist.produce(ctx)
    if prod is None:
        return
    h, in_range, label = prod
    cross = ch.coin(1, 4, "cross-restart") or bool(ctx.cfg.get("replay_cross"))
    ctx.profile["cross"] = cross
    c_persist.roundtrip_check(ctx, h, label, cross)
    if not ctx.violations and ch.coin(1, 3, "continue-on-loaded"):
        c_persist.continue_on_loaded(ctx, h.to_json(), label, orig=h)


def batch_extra():
    from .. import restart
    restart.stop()
    return {"reader_restarts": restart.stats["restarts"], "reader_requests": restart.stats["requests"]}
