"""C03 — emitted documents conform to the published wire format (engines A+B+C)."""

from __future__ import annotations

import json

from ..engines import c_persist
from ..oracles import wire

PROP = "C03"
NONTRIVIAL_STEPS = 3


def run(ctx):
    ch = ctx.ch
    ctx.profile = {}
    prod = c_persist.produce(ctx)
    if prod is None:
        return
    h, in_range, label = prod
    c_persist.wire_check(ctx, h, in_range, label)
    if ctx.violations:
        return
    if ch.coin(1, 4, "continue-on-loaded"):
        c_persist.continue_on_loaded(ctx, h.to_json(), label, orig=h)
        if ctx.violations:
            return
    # packages built from it (modules only here; extensions are covered by C10's documents)
    from hugr.package import Package
    if ch.coin(1, 3, "package"):
        ctx.checked("schema-package")
        try:
            # the package document as it is actually emitted: the payload of the (uncompressed) envelope
            payload = Package([h]).to_bytes()[10:]
            pdoc = wire.strict_loads(payload)
        except wire.NotJson as e:
            ctx.violate("schema", "package:payload-is-not-json", {"error": str(e)})
            return
        except Exception as e:  # noqa: BLE001
            ctx.violate("serialise", f"package-raised:{type(e).__name__}", repr(e)[:200])
            return
        for (ptr, msg) in wire.schema_errors(pdoc, "Package"):
            ctx.violate("schema", "package:" + (ptr or "root"), {"message": msg})
        # ... and as the other emitters write it: the text envelope, the compressed envelope
        import pyzstd
        from hugr.envelope import EnvelopeConfig
        for how, get in (("to_str", lambda: Package([h]).to_str()[10:].encode("utf-8")),
                         ("to_bytes(zstd)", lambda: pyzstd.decompress(Package([h]).to_bytes(EnvelopeConfig(zstd=0))[10:]))):
            try:
                pdoc2 = wire.strict_loads(get())
            except wire.NotJson as e:
                ctx.violate("schema", f"package:{how}:payload-is-not-json", {"error": str(e)})
                return
            except Exception as e:  # noqa: BLE001
                ctx.violate("serialise", f"package-raised:{how}:{type(e).__name__}", repr(e)[:200])
                return
            if pdoc2 != pdoc:
                errs = wire.schema_errors(pdoc2, "Package")
                ctx.violate("schema", f"package:{how}:" + ((errs[0][0] or "root") if errs else "differs-from-the-to_bytes-document"),
                            {"message": errs[0][1] if errs else None})
    # the reader re-emits: the re-emitted document is checked too
    if ch.coin(1, 5, "reader-reemit"):
        from .. import restart
        resp = restart.request({"kind": "hugr", "doc": h.to_json()})
        ctx.probe("restart_read")
        if "error" not in resp:
            doc2 = json.loads(resp["json2"])
            ctx.checked("schema-reemitted")
            for (ptr, msg) in wire.schema_errors(doc2, "SerialHugr"):
                ctx.violate("schema", "reemitted:" + (ptr or "root"), {"message": msg})
            for (cls, det) in wire.index_sanity(doc2)[:2]:
                ctx.violate("index-sanity", "reemitted:" + cls, det)


def batch_extra():
    from .. import restart
    restart.stop()
    return {"reader_restarts": restart.stats["restarts"], "reader_requests": restart.stats["requests"]}
