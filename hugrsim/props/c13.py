"""C13 — builders refuse inconsistent constructions: one faulty request injected into a
well-formed engine-B program at a scheduler-chosen point; the call must raise (the documented
exception where one is documented).  The run stops at the fault (fail-stop)."""

from __future__ import annotations

from ..engines.b_builders import Actor, BuilderSim, CfgCtl, CondCtl, Discard, T

PROP = "C13"
NONTRIVIAL_STEPS = 2

# fault kinds whose request can be made a second time unchanged (nothing of the first attempt is consumed)
SAME_AGAIN = ("function-outputs-differ", "exit-type-mismatch", "case-index-out-of-range", "case-built-twice",
              "call-non-function", "untracked-index", "int-wire-untracked-builder")
KINDS = ["no-sibling-ancestor", "outside-cfg", "case-outputs-disagree", "case-index-out-of-range", "case-built-twice",
         "conditional-exit-unbuilt", "exit-type-mismatch", "function-outputs-differ", "poly-no-instantiation",
         "poly-wrong-arg-count", "call-non-function", "non-dataflow-wire", "int-wire-untracked-builder",
         "untracked-index", "serialise-incomplete"]


def ancestors(a):
    out = []
    while a is not None:
        out.append(a)
        # a function local to a region: hierarchically its body lies inside the region that defines it
        a = getattr(a, "parent", None) or getattr(a, "def_site", None)
    return out


def in_same_cfg(a, x):
    """Is actor x inside the CFG that encloses block actor a?"""
    cfg = a.cfg
    y = x
    while y is not None:
        if getattr(y, "cfg", None) is cfg:
            return True
        y = getattr(y, "parent", None) or getattr(y, "def_site", None)
    return False


def detached_container(ty, cfg: bool):
    """A finished identity container over one input of type ty, in its own Hugr."""
    from hugr.build.cfg import Cfg
    from hugr.build.dfg import Dfg
    if cfg:
        c = Cfg(ty)
        with c.add_entry() as e:
            e.set_single_succ_outputs(*e.inputs())
        c.branch_exit(e[0])
        return c, "insert_cfg"
    d = Dfg(ty)
    d.set_outputs(*d.inputs())
    return d, "insert_nested"


def attempt(sim: BuilderSim, a, kind):
    """Returns None if the fault is not applicable here, else (callable, documented exception class names or None when none is documented, description)."""
    ctx = sim.ctx
    ch = ctx.ch
    t = T()
    from hugr.build.tracked_dfg import TrackedDfg

    if kind in ("no-sibling-ancestor", "outside-cfg"):
        if not isinstance(a, Actor):
            return None
        anc = ancestors(a)
        others = [x for x in sim.actors if isinstance(x, Actor) and x not in anc and any(not w.lin for w in x.pool)]
        if kind == "no-sibling-ancestor":
            if a.kind == "block":
                return None
            # a source whose parent is not the parent of any ancestor of the target
            others = [x for x in others]
            exp = ["NoSiblingAncestor"]
        else:
            if a.kind != "block":
                return None
            others = [x for x in others if not in_same_cfg(a, x)]
            exp = ["NotInSameCfg"]
        if not others:
            return None
        x = ch.pick(others, "fault-src-actor")
        w = ch.pick([w for w in x.pool if not w.lin], "fault-wire")
        how = ch.draw(5, "fault-entry")
        if isinstance(a.b, TrackedDfg) and ch.coin(1, 2, "fault-via-tracked-index"):
            # the offending wire is first tracked (tracking a wire is just remembering it) and then used by its index
            i = a.b.track_wire(w.wire)
            ctx.ev(a.id, "track_wire", f"wire from actor {x.id}", i)
            ctx.probe("foreign_wire_used_by_tracked_index")
            if ch.coin(1, 2, "fault-tracked-outputs"):
                return (lambda: a.b.set_indexed_outputs(i)), exp, f"set_indexed_outputs({i}) where index {i} holds a wire from actor {x.id}"
            return (lambda: a.b.add(t.ops.Noop()(i))), exp, f"add(Noop({i})) where index {i} holds a wire from actor {x.id}"
        if how >= 3:
            # the insert_* entry points: a finished, detached container is attached with the offending wire as its input
            det, nm = detached_container(w.ty, how == 4)
            fn = a.b.insert_cfg if how == 4 else a.b.insert_nested
            return (lambda: fn(det, w.wire)), exp, f"{nm}(detached, wire from actor {x.id})"
        if how == 0:
            return (lambda: a.b.add_op(t.ops.Noop(), w.wire)), exp, f"add_op(Noop, wire from actor {x.id})"
        if how == 1:
            return (lambda: a.b.add_nested(w.wire)), exp, f"add_nested(wire from actor {x.id})"
        return (lambda: a.b.add(t.ops.Noop()(w.wire))), exp, f"add(Noop(wire from actor {x.id}))"
    if kind == "case-outputs-disagree":
        if not (isinstance(a, Actor) and a.kind == "case" and a.open_children == 0 and a.required is not None):
            return None
        if a.b._parent_cond is None or a.b._parent_cond.parent_op._outputs is None:
            return None
        # the established row plus one extra Bool / minus one
        wires = [a.find(ty) for ty in a.required]
        if ch.coin(1, 2, "fault-drop") and wires:
            wires = wires[:-1]
        else:
            wires.append(a.find(t.B))
        for w in list(a.pool):
            if w.lin and not w.used:
                a.discharge(w)
        if ch.coin(1, 3, "fault-on-second-set_outputs"):
            # the case first sets its outputs as established, then sets them again with another row
            good = [a.find(ty) for ty in a.required]
            a.b.set_outputs(*[w.wire for w in good])
            ctx.ev(a.id, "set_outputs (as established)", len(good))
            ctx.probe("case_outputs_set_a_second_time")
            return (lambda: a.b.set_outputs(*[w.wire for w in wires])), ["ConditionalError"], "a second set_outputs on the same case with a row differing from the established one"
        return (lambda: a.b.set_outputs(*[w.wire for w in wires])), ["ConditionalError"], "set_outputs with a row differing from the first case's"
    if kind in ("case-index-out-of-range", "case-built-twice", "conditional-exit-unbuilt"):
        if not isinstance(a, CondCtl):
            return None
        n = len(a.sum_ty.variant_rows)
        if kind == "case-index-out-of-range":
            k = n + ch.draw(3, "fault-case-idx")
            return (lambda: a.b.add_case(k)), ["ConditionalError"], f"add_case({k}) of {n}"
        if kind == "case-built-twice":
            built = [k for k in range(n) if k not in a.pending]
            if not built:
                return None
            k = ch.pick(built, "fault-case-idx")
            return (lambda: a.b.add_case(k)), ["ConditionalError"], f"add_case({k}) again"
        if not a.pending:
            return None
        return (lambda: a.b.__exit__(None, None, None)), ["ConditionalError"], "leave the conditional context with unbuilt cases"
    if kind == "exit-type-mismatch":
        if not (isinstance(a, CfgCtl) and a.exit_done):
            return None
        cands = [(i, k) for i, blk in a.blocks.items() if blk.closed for k, tgt in enumerate(a.succ[i])
                 if a.rows[tgt] != a.rows["exit"]]
        if not cands:
            return None
        i, k = ch.pick(cands, "fault-branch")
        src = a.blocks[i].b.parent_node.out(k)
        if ch.coin(1, 2, "fault-via-branch"):
            if ch.coin(1, 2, "fault-exit-handle-rebuilt"):
                from hugr.hugr.node_port import Node
                ex = Node(a.b.exit.idx)  # an equal handle built by the client names the same exit block
                return (lambda: a.b.branch(src, ex)), ["MismatchedExit"], f"branch(block{i}[{k}], Node(exit.idx)) with a different row"
            return (lambda: a.b.branch(src, a.b.exit)), ["MismatchedExit"], f"branch(block{i}[{k}], exit) with a different row"
        return (lambda: a.b.branch_exit(src)), ["MismatchedExit"], f"branch_exit(block{i}[{k}]) with a different row"
    if kind == "function-outputs-differ":
        if not (isinstance(a, Actor) and a.kind == "func" and a.required is not None and a.open_children == 0 and not a.type_vars):
            return None
        if any(w.var for w in a.pool):
            return None
        wires = [a.find(ty) for ty in a.required]
        m = ch.draw(3, "fault-out-mut")
        if m == 0 and wires:
            wires = wires[:-1]
        elif m == 1 or not wires:
            wires.append(a.find(t.B))
        else:
            # replace one output by a wire of another type
            j = ch.draw(len(wires), "fault-out-pos")
            other = t.B if wires[j].ty != t.B else t.I5
            wires[j] = a.find(other)
        return (lambda: a.b.set_outputs(*[w.wire for w in wires])), None, "set_outputs differing from declare_outputs"
    if kind in ("poly-no-instantiation", "poly-wrong-arg-count"):
        if not isinstance(a, Actor):
            return None
        fs = [f for f in sim.funcs if f["sig"] is not None and f["sig"].params]
        if not fs:
            return None
        f = ch.pick(fs, "fault-callee")
        inst, targs = sim.instantiate(f)
        load = ch.coin(1, 2, "fault-load")
        if kind == "poly-no-instantiation":
            if load:
                return (lambda: a.b.load_function(f["node"])), ["NoConcreteFunc"], "load_function(poly) without instantiation"
            if not all(a.can_find(x) for x in inst.input):
                return None
            args = [a.find(x).wire for x in inst.input]
            return (lambda: a.b.call(f["node"], *args)), ["NoConcreteFunc"], "call(poly) without instantiation"
        bad = [] if ch.coin(1, 2, "fault-zero-args") else [*targs, *targs]
        if load:
            return (lambda: a.b.load_function(f["node"], instantiation=inst, type_args=bad)), ["NoConcreteFunc"], \
                f"load_function(poly) with {len(bad)} type args"
        if not all(a.can_find(x) for x in inst.input):
            return None
        args = [a.find(x).wire for x in inst.input]
        return (lambda: a.b.call(f["node"], *args, instantiation=inst, type_args=bad)), ["NoConcreteFunc"], \
            f"call(poly) with {len(bad)} type args"
    if kind == "call-non-function":
        if not isinstance(a, Actor):
            return None
        cands = [n for n in a.nodes[1:] if isinstance(sim.hugr[n].op, t.ops.DataflowOp)] + [c[0] for c in sim.consts]
        if not cands:
            return None
        n = ch.pick(cands, "fault-node")
        if ch.coin(1, 2, "fault-load"):
            return (lambda: a.b.load_function(n)), None, "load_function(non-function node)"
        return (lambda: a.b.call(n)), None, "call(non-function node)"
    if kind == "non-dataflow-wire":
        if not isinstance(a, Actor):
            return None
        vis = [c[0] for c in sim.consts if c[2] in [x.b.parent_node.idx for x in ancestors(a) if hasattr(x, "b")] + [sim.hugr.root.idx]]
        if a.func_root.kind == "func" and sim.module is not None:
            vis += [f["node"] for f in sim.funcs]
        if not vis:
            return None
        n = ch.pick(vis, "fault-node")
        if ch.coin(1, 3, "fault-via-insert"):
            det, nm = detached_container(t.B, ch.coin(1, 2, "fault-insert-cfg"))
            fn = a.b.insert_cfg if nm == "insert_cfg" else a.b.insert_nested
            return (lambda: fn(det, n)), None, f"{nm}(detached, <Const/Func node out 0>)"
        return (lambda: a.b.add_op(t.ops.Noop(), n)), None, "add_op(Noop, <Const/Func node out 0>)"
    if kind == "int-wire-untracked-builder":
        if not isinstance(a, Actor) or isinstance(a.b, TrackedDfg):
            return None
        tr = [x for x in ancestors(a)[1:] if isinstance(getattr(x, "b", None), TrackedDfg) and not x.closed]
        if tr and ch.coin(1, 2, "fault-reused-command"):
            # the same Command object is first added, legitimately, to the tracked builder around this one
            x = tr[0]
            if not any(w is not None for w in x.b.tracked):
                if not x.b.inputs():
                    return None
                x.b.track_inputs()
            i = next(j for j, w in enumerate(x.b.tracked) if w is not None)
            cmd = t.ops.Noop()(i)
            n = x.b.add(cmd)
            ctx.ev(x.id, "add (tracked builder)", f"Noop({i})", f"n{n.idx}")
            ctx.probe("command_object_used_in_tracked_builder_first")
            return (lambda: a.b.add(cmd)), None, f"add(the same Noop({i}) command object) in an untracked builder nested in the tracked one"
        i = ch.draw(3, "fault-int")
        if ch.coin(1, 2, "fault-extend"):
            return (lambda: a.b.extend(t.ops.Noop()(i))), None, f"extend(Noop({i})) in an untracked builder"
        return (lambda: a.b.add(t.ops.Noop()(i))), None, f"add(Noop({i})) in an untracked builder"
    if kind == "untracked-index":
        if not (isinstance(a, Actor) and isinstance(a.b, TrackedDfg)):
            return None
        bad = [i for i, w in enumerate(a.b.tracked) if w is None] + [len(a.b.tracked), len(a.b.tracked) + 2]
        if getattr(a, "c13_untracked", None) is not None:
            # the program's own record of the indices it was handed and the ones it gave back (never the builder's list)
            bad = sorted(a.c13_untracked) + [a.c13_handed_out, a.c13_handed_out + 2]
        i = ch.pick(bad, "fault-int")
        m = ch.draw(4, "fault-entry")
        if m == 0:
            return (lambda: a.b.add(t.ops.Noop()(i))), ["IndexError"], f"add(Noop({i})) untracked"
        if m == 1:
            return (lambda: a.b.extend(t.ops.Noop()(i))), ["IndexError"], f"extend(Noop({i})) untracked"
        if m == 2:
            return (lambda: a.b.set_indexed_outputs(i)), ["IndexError"], f"set_indexed_outputs({i}) untracked"
        return (lambda: a.b.untrack_wire(i)), ["IndexError"], f"untrack_wire({i}) untracked"
    if kind == "serialise-incomplete":
        open_actors = [x for x in sim.actors if isinstance(x, Actor) and not x.closed]
        if not open_actors:
            return None
        return (lambda: sim.hugr.to_json()), ["IncompleteOp"], f"to_json with {len(open_actors)} builders open"
    return None


def recycle_function_index(sim, a, kind):
    """History for the call faults: a monomorphic function is declared and called, the call and the declaration are
    deleted, and a polymorphic function (or a constant) is created next, taking over the freed index."""
    t = T()
    ch = sim.ctx.ch
    m = sim.module
    sig = t.tys.PolyFuncType([], t.tys.FunctionType([], [t.B]))
    f = m.declare_function("recycled_f", sig)
    call_n = a.b.call(f)
    sim.ctx.ev(a.id, "declare+call", "recycled_f", f"n{f.idx},n{call_n.idx}")
    sim.hugr.delete_node(call_n)
    sim.hugr.delete_node(f)
    sim.ctx.probe("callee_index_recycled")
    if kind == "poly-no-instantiation":
        bd = t.tys.TypeBound.Copyable
        psig = t.tys.PolyFuncType([t.tys.TypeTypeParam(bd)], t.tys.FunctionType([], [t.tys.Variable(0, bd)]))
        g = m.declare_function("recycled_g", psig)
        sim.ctx.ev(a.id, "delete both; declare poly", "recycled_g", f"n{g.idx}")
        if g.idx != f.idx:
            return None
        if ch.coin(1, 2, "fault-load"):
            return (lambda: a.b.load_function(g)), ["NoConcreteFunc"], "load_function(poly at a recycled index) without instantiation"
        return (lambda: a.b.call(g)), ["NoConcreteFunc"], "call(poly at a recycled index) without instantiation"
    c = m.add_const(t.val.TRUE)
    sim.ctx.ev(a.id, "delete both; add const", None, f"n{c.idx}")
    if c.idx != f.idx:
        return None
    return (lambda: a.b.call(c)), None, "call(<Const at the recycled index of a function>)"


def run(ctx):
    ch = ctx.ch
    kind = KINDS[ch.draw(len(KINDS), "fault-kind")]
    root = None
    if kind == "untracked-index" or (kind == "int-wire-untracked-builder" and ch.coin(1, 2, "root-tracked")) \
            or (kind == "no-sibling-ancestor" and ch.coin(1, 2, "root-tracked")):
        root = "tracked"
    elif kind in ("poly-no-instantiation", "poly-wrong-arg-count", "function-outputs-differ"):
        root = "module"
    elif kind in ("exit-type-mismatch", "outside-cfg") and ch.coin(1, 2, "root-cfg"):
        root = "cfg" if kind == "exit-type-mismatch" else None
    elif kind.startswith("case-") or kind == "conditional-exit-unbuilt":
        root = "conditional" if ch.coin(1, 3, "root-cond") else None
    feats = {"cond": True, "loop": True, "cfg": True, "calls": True, "poly": True, "meta": False}
    at = 1 + ch.draw(25, "fault-at")
    state = {"done": False}

    def hook(sim, a, steps):
        if steps < at or state["done"]:
            return False
        if kind == "untracked-index" and hasattr(a, "b"):
            # make some indices tracked / untracked first
            from hugr.build.tracked_dfg import TrackedDfg
            if isinstance(a.b, TrackedDfg) and a.b.inputs() and not a.b.tracked:
                a.b.track_inputs()
                a.b.untrack_wire(0)
                a.c13_untracked, a.c13_handed_out = {0}, len(a.b.inputs())
                if ch.coin(1, 2, "many-tracked-wires"):
                    # size class: dozens of indices handed out, most of them freed again (freed for good)
                    w0 = a.b.inputs()[0]
                    n = 17 + ch.draw(30, "n-tracked")
                    idxs = [a.b.track_wire(w0) for _ in range(n)]
                    a.c13_handed_out += n
                    for i in idxs:
                        if ch.coin(2, 3, "untrack-it"):
                            try:
                                a.b.untrack_wire(i)
                            except IndexError:
                                # a live index refused: not this property's business (C15 judges it); go on to the fault
                                ctx.probe("live_index_refused_during_preparation")
                                break
                            a.c13_untracked.add(i)
                    ctx.probe("many_indices_most_of_them_untracked")
        att = attempt(sim, a, kind)
        if att is None and steps >= at + 4:
            # the scheduled actor cannot host this fault: let the scheduler's choice fall on another one
            for other in sim.actors:
                if other is not a and not getattr(other, "closed", False):
                    att = attempt(sim, other, kind)
                    if att is not None:
                        a = other
                        break
        if att is None:
            return False
        fn, expected, desc = att
        if kind in ("poly-no-instantiation", "call-non-function") and isinstance(a, Actor) and sim.module is not None \
                and ch.coin(1, 3, "after-index-reuse"):
            recycled = recycle_function_index(sim, a, kind)
            if recycled is not None:
                fn, expected, desc = recycled
        state["done"] = True
        ctx.fault(kind)
        ctx.steps += 1
        try:
            fn()
            outcome = "returned"
        except Exception as e:  # noqa: BLE001
            outcome = type(e).__name__
            mro = [c.__name__ for c in type(e).__mro__]
        ctx.ev(a.id, "FAULT:" + kind, desc, outcome, fault=kind)
        ctx.checked("refuse")
        if outcome == "returned":
            ctx.violate("accepted", kind, {"call": desc, "actor": getattr(a, "kind", type(a).__name__)})
        elif expected is not None and not any(x in mro for x in expected):
            ctx.violate("wrong-exception", f"{kind}:{outcome}", {"call": desc, "expected": expected})
        if not ctx.violations and outcome != "returned" and kind in SAME_AGAIN and ch.coin(1, 3, "same-request-again"):
            # the caller catches the error and makes the very same inconsistent request once more: the inconsistency is
            # still there, so it must be refused again (a refusal that records half of the request - a declared row
            # overwritten, a cache filled - makes the second attempt acceptable)
            ctx.fault("again:" + kind)
            try:
                fn()
                out1 = "returned"
            except Exception as e1:  # noqa: BLE001
                out1 = type(e1).__name__
            ctx.ev(a.id, "FAULT-AGAIN:" + kind, desc, out1, fault=kind)
            ctx.checked("refuse-again")
            if out1 == "returned":
                ctx.violate("accepted", f"{kind}:second-attempt", {"call": desc, "first": outcome})
        if not ctx.violations and outcome != "returned" and kind in ("no-sibling-ancestor", "outside-cfg") and desc.startswith(("add_op(", "add(", "add_nested(")) and ch.coin(1, 3, "complete-the-program-after"):
            # the refused call left an operation without its inputs behind (only the add_op / add / add_nested carriers:
            # insert_* leaves a finished container behind, set_indexed_outputs nothing); the caller catches the error and finishes
            # the program: what is serialised then still contains that incomplete operation
            state["finish"] = True
            return False
        if not ctx.violations and outcome != "returned" and ch.coin(1, 3, "second-fault"):
            # "refuse instead of recording": the refused call must not have recorded anything that makes a later
            # inconsistent call acceptable.  Inject one more fault of a conditional / exit kind on the same state.
            for kind2 in ("conditional-exit-unbuilt", "case-built-twice", "case-index-out-of-range", "exit-type-mismatch", "int-wire-untracked-builder"):
                if kind2 == kind and kind2 != "conditional-exit-unbuilt":
                    continue
                att2 = None
                for other in sim.actors:
                    if not getattr(other, "closed", False) or kind2 == "exit-type-mismatch":
                        try:
                            att2 = attempt(sim, other, kind2)
                        except Exception:  # noqa: BLE001  (the first fault may have left the builder unusable)
                            att2 = None
                        if att2 is not None:
                            a2 = other
                            break
                if att2 is None:
                    continue
                fn2, exp2, desc2 = att2
                ctx.fault("second:" + kind2)
                try:
                    fn2()
                    out2 = "returned"
                except Exception as e2:  # noqa: BLE001
                    out2 = type(e2).__name__
                ctx.ev(a2.id, "FAULT2:" + kind2, desc2, out2, fault=kind2)
                ctx.checked("refuse-after-refusal")
                if out2 == "returned":
                    ctx.violate("accepted", f"{kind2}:after-a-refused-{kind}", {"call": desc2})
                break
        return True

    try:
        sim = BuilderSim(ctx, root_kind=root, features=feats, max_steps=30 + ch.draw(50, "max-steps"))
        ctx.profile = {"fault": kind, "root": sim.root_kind, "at": at}
        sim.fault_hook = hook
        sim.run()
    except Discard as d:
        ctx.discard = str(d)
        return
    if not state["done"]:
        ctx.discard = "fault-not-applicable:" + kind
    elif state.get("finish"):
        ctx.fault("second:serialise-incomplete")
        ctx.checked("refuse-after-refusal")
        try:
            sim.hugr.to_json()
            out = "returned"
        except Exception as e:  # noqa: BLE001
            out = type(e).__name__
            mro = [c.__name__ for c in type(e).__mro__]
        ctx.ev("root", "FAULT2:serialise-incomplete", "to_json of the finished program after the refused call", out)
        if out == "returned":
            # either the refusal left nothing behind (then the document is that of the finished, valid program), or it left an
            # operation without its inputs - and that one must not have been serialised as if it were complete
            import json as _json
            from ..oracles import refvalidate
            bad = refvalidate.validate(_json.loads(sim.hugr.to_json()))
            if bad:
                ctx.violate("accepted", f"serialise-incomplete:after-a-refused-{kind}", {"document_violates": [f"{b[0]}/{b[1]}" for b in bad[:3]]})
            else:
                ctx.probe("refusal_left_nothing_behind")
        elif "IncompleteOp" not in mro:
            ctx.violate("wrong-exception", f"serialise-incomplete:{out}:after-a-refused-{kind}", {})
