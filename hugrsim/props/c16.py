"""C16 — node handles enumerate exactly their operation's value outputs.

Temporal part: handles come out of real histories (engine A: add_node with an explicit count,
insert_hugr; engine B: add_op / add / extend / call / load / container builders once their
outputs are set, insert_*).  Every handle a run obtains is probed against range(n).
"""

from __future__ import annotations

from ..engines.a_graph import GraphSim
from ..engines.b_builders import BuilderSim, Discard

PROP = "C16"
NONTRIVIAL_STEPS = 3


def probe_handle(ctx, node, n, producer, exhaustive):
    """Index algebra of one handle with known count n (or None = unknown)."""
    from hugr.hugr.node_port import Node, OutPort

    ch = ctx.ch
    V = lambda clause, cls, detail: ctx.violate(clause, f"{cls}:{producer.split(':')[0]}", detail)  # noqa: E731
    idx = node.idx
    ctx.checked("handle")
    if n is None:
        # unknown count: non-negative indexing works, iteration raises ValueError
        try:
            list(iter(node))
            V("iter", "unknown-count-iterates", {"node": idx})
        except ValueError:
            pass
        except Exception as e:  # noqa: BLE001
            V("iter", f"unknown-count-raises-{type(e).__name__}", {"node": idx})
        for i in (0, 1, 5):
            try:
                p = node[i]
                if p != OutPort(Node(idx), i):
                    V("index", "unknown-count-wrong-port", {"i": i})
            except Exception as e:  # noqa: BLE001
                V("index", f"unknown-count-nonneg-raises-{type(e).__name__}", {"i": i})
        return
    if node._num_out_ports != n:
        V("count", "handle-count", {"node": idx, "got": node._num_out_ports, "expected": n})
        return
    # iteration
    try:
        got = [(p.node.idx, p.offset) for p in node]
    except Exception as e:  # noqa: BLE001
        got = f"raised {type(e).__name__}"
    if got != [(idx, i) for i in range(n)]:
        V("iter", "iteration", {"node": idx, "n": n, "got": got})
    try:
        got = [(p.node.idx, p.offset) for p in node.outputs()]
    except Exception as e:  # noqa: BLE001
        got = f"raised {type(e).__name__}"
    if got != [(idx, i) for i in range(n)]:
        V("iter", "outputs()", {"node": idx, "n": n, "got": got})
    # integer indexing
    r = range(n)
    ints = range(-n - 2, n + 3) if exhaustive or n <= 3 else [ch.draw(2 * n + 5, "int-idx") - n - 2 for _ in range(4)]
    for i in ints:
        try:
            exp = r[i]
        except IndexError:
            exp = "IndexError"
        try:
            p = node[i]
            got = p.offset if p.node.idx == idx else "wrong-node"
        except IndexError:
            got = "IndexError"
        except Exception as e:  # noqa: BLE001
            got = f"raised {type(e).__name__}"
        if got != exp:
            V("index", "int-accepted-out-of-range" if exp == "IndexError" else "int", {"n": n, "i": i, "got": got, "expected": exp})
    # slices with positive step
    bounds = [None, *range(-n - 3, n + 4)]
    steps = [None, 1, 2, 3] if n <= 6 else [None, 1, 2, 3, 5, n - 1, n, n + 5, 2 ** 40]
    if exhaustive and n <= 6:
        combos = [(a, b, s) for a in bounds for b in bounds for s in steps]
    else:
        combos = [(ch.pick(bounds, "sl-start"), ch.pick(bounds, "sl-stop"), ch.pick(steps, "sl-step")) for _ in range(6)]
    for (a, b, s) in combos:
        below = (a is not None and a < -n) or (b is not None and b < -n)
        exp = "IndexError" if below else list(r[slice(a, b, s)])
        try:
            got = [p.offset for p in node[a:b:s]]
        except IndexError:
            got = "IndexError"
        except Exception as e:  # noqa: BLE001
            got = f"raised {type(e).__name__}"
        if got != exp:
            V("slice", "bound-below-minus-n-accepted" if exp == "IndexError" else "slice",
              {"n": n, "slice": [a, b, s], "got": got, "expected": exp})
    # a node used as a wire is its output 0; ports compare and hash by (index, offset) only
    if node.out_port() != OutPort(Node(idx), 0):
        V("wire", "node-as-wire", {"node": idx})
    q = Node(idx, {"other": "metadata"}, 99).out(0)
    if node.out(0) != q or hash(node.out(0)) != hash(q) or node.inp(1) != Node(idx).inp(1) or node.out(0) == node.out(1) \
            or node.out(0) == Node(idx + 1).out(0) or node != Node(idx, {}, None) or hash(node) != hash(Node(idx)):
        V("wire", "port-equality", {"node": idx})


def run(ctx):
    ch = ctx.ch
    exhaustive = ctx.cfg.get("tier") == "thorough"
    leg = ch.weighted([3, 1, 1, 1, 1], "leg")
    if leg == 4:
        return scenario_leg(ctx, exhaustive)
    if leg == 3:
        from ..engines.b_builders import run_insert_leg
        run_insert_leg(ctx, probe_handle=lambda c, node, n, producer, ex: (c.probe("handle:" + producer), probe_handle(c, node, n, producer, ex)))
        return
    if leg == 1:
        # engine A: add_node with explicit counts, handles re-issued, insert_hugr
        ctx.profile = {"leg": "graph"}
        sim = GraphSim(ctx, in_range=False, allow_delete=True, allow_insert=True, max_nodes=20)
        for _ in range(3 + ch.draw(25, "nsteps")):
            g = sim.graphs[ch.draw(len(sim.graphs), "sched")]
            r = sim.step(0 if g is sim.graphs[0] else g.name, g)
            if r[0] == "add_node":
                idx = r[1]
                h = g.handles[idx]
                req = g.req_outs.get(idx)
                probe_handle(ctx, h, req, "add_node(num_outs)" if req is not None else "add_node", exhaustive)
                ctx.probe("graph_handle_known" if req is not None else "graph_handle_unknown")
            if ctx.violations:
                return
        return
    if leg == 2:
        # pure handles with drawn counts (covers n beyond what builders produce, incl. 0)
        from hugr.hugr.node_port import Node
        ctx.profile = {"leg": "direct"}
        from hugr.hugr import Hugr
        from hugr import ops, tys
        h = Hugr()
        for _ in range(1 + ch.draw(6, "n-handles")):
            n = ch.draw(9, "count")
            if ch.coin(1, 8, "count-large"):
                n += 8 + ch.draw(120, "count-extra")
                ctx.probe("handle_with_many_outputs")
            node = h.add_node(ops.DFG([], [tys.Bool] * n), num_outs=n)
            ctx.ev(0, "add_node", {"num_outs": n}, node.idx)
            ctx.steps += 1
            probe_handle(ctx, node, n, "add_node(num_outs)", exhaustive)
            # the handle listed among the parent's children is the re-issued one
            kid = h.children(h.root)[-1]
            probe_handle(ctx, kid, n, "children()", False)
        return
    feats = {"cond": True, "loop": True, "cfg": ch.coin(3, 4, "f-cfg"), "calls": True, "poly": ch.coin(1, 2, "f-poly"), "meta": False, "insert": ch.coin(1, 2, "f-insert"),
             "stray_links": ch.coin(1, 2, "f-stray-links")}
    try:
        sim = BuilderSim(ctx, features=feats, max_steps=20 + ch.draw(40, "max-steps"))
        ctx.profile = {"leg": "builders", "root": sim.root_kind}
        seen = 0

        def after(sim):
            nonlocal seen
            while seen < len(sim.handles):
                node, n, producer = sim.handles[seen]
                seen += 1
                ctx.probe("handle:" + producer.split(":")[0])
                probe_handle(ctx, node, n, producer, exhaustive and n <= 4)
        sim.after_step = after
        sim.run()
        after(sim)
    except Discard as d:
        ctx.discard = str(d)


def scenario_leg(ctx, exhaustive):
    """Builder histories that change *when* and *how* a handle learns its count:
    (a) one partial operation object (UnpackTuple / MakeTuple) used for several nodes of different widths;
    (b) a case whose outputs are refused, after which the conditional's handle is inspected;
    (c) a container whose last output is linked through the graph API before its outputs are set."""
    from hugr import ops, tys, val
    from hugr.build.cond_loop import ConditionalError
    from hugr.build.dfg import Dfg

    ch = ctx.ch
    which = ch.draw(8, "scenario")
    B, Q = tys.Bool, tys.Qubit
    ctx.profile = {"leg": "scenario", "scenario": which}
    if which == 0:
        widths = [ch.draw(4, "width") for _ in range(2 + ch.draw(2, "n-tuples"))]
        d = Dfg()
        shared = ops.UnpackTuple()
        ctx.probe("partial_op_object_reused")
        for w in widths:
            elems = [d.load(val.TRUE) for _ in range(w)]
            tup = d.add_op(ops.MakeTuple(), *elems)
            how = ch.draw(3, "how")
            if how == 0:
                n = d.add_op(shared, tup)
            elif how == 1:
                n = d.add(shared(tup))
            else:
                n = d.extend(shared(tup))[0]
            ctx.ev(0, "add UnpackTuple (shared op object)", {"width": w, "how": how}, n.idx)
            ctx.steps += 1
            probe_handle(ctx, n, w, "add_op:UnpackTuple-shared-object", exhaustive)
        return
    if which == 1:
        n_out = 1 + ch.draw(3, "n-out")
        m_out = ch.pick([k for k in range(5) if k != n_out], "m-out")
        d = Dfg(B)
        cond = d.add_conditional(d.inputs()[0])
        with cond.add_case(0) as c0:
            c0.set_outputs(*[c0.load(val.TRUE) for _ in range(n_out)])
        c1 = cond.add_case(1)
        ctx.steps += 2
        try:
            c1.set_outputs(*[c1.load(val.TRUE) for _ in range(m_out)])
            ctx.ev(0, "case 1 set_outputs (wrong length)", m_out, "returned")
        except ConditionalError:
            ctx.ev(0, "case 1 set_outputs (wrong length)", m_out, "ConditionalError")
            ctx.fault("refused_case_outputs")
        ctx.probe("handle_inspected_after_refused_case")
        probe_handle(ctx, cond.parent_node, n_out, "conditional-after-refused-case", exhaustive)
        node = next(c for c in d.hugr.children(d.parent_node) if c.idx == cond.parent_node.idx)
        probe_handle(ctx, node, n_out, "children()-after-refused-case", False)
        return
    if which == 3:
        # (d) If/Else share one Conditional: its handle learns the count when the first branch sets its outputs.  A
        # branch builder asked for the conditional's node before that moment must answer correctly afterwards too.
        n_out = ch.draw(4, "n-out")
        d = Dfg(B)
        if_ = d.add_if(d.inputs()[0])
        early_if = if_.conditional_node
        ctx.ev(0, "if_.conditional_node (before any outputs)", None, early_if._num_out_ports)
        ctx.probe("conditional_node_read_before_outputs_set")
        first_else = ch.coin(1, 2, "else-opened-before-if-outputs")
        if_.set_outputs(*[if_.load(val.TRUE) for _ in range(n_out)])
        if first_else:
            probe_handle(ctx, if_.conditional_node, n_out, "if.conditional_node-after-if-outputs", exhaustive)
        else_ = if_.add_else()
        early_else = else_.conditional_node
        else_.set_outputs(*[else_.load(val.FALSE) for _ in range(n_out)])
        ctx.steps += 3
        ctx.ev(0, "if/else outputs set", n_out)
        probe_handle(ctx, if_.conditional_node, n_out, "if.conditional_node-read-early-and-late", exhaustive)
        probe_handle(ctx, else_.conditional_node, n_out, "else.conditional_node-read-early-and-late", exhaustive)
        probe_handle(ctx, early_else, n_out, "else.conditional_node-after-if-outputs", False)
        return
    if which == 4:
        # (e) a refused branch_exit (successor index out of range, or a source block without outputs yet), caught by
        # the caller, then the valid one: the CFG's handle must still learn its count
        n_out = ch.draw(4, "n-out")
        nested = ch.coin(1, 2, "nested-cfg")
        from hugr.build.cfg import Cfg
        d = Dfg(B)
        cfg = d.add_cfg(*[d.inputs()[0]] * n_out) if nested else Cfg(*[B] * n_out)
        entry = cfg.add_entry()
        how = ch.draw(2, "refusal")
        try:
            if how == 0:
                cfg.branch_exit(entry.parent_node.out(2 + ch.draw(2, "bad-succ")))
                src = None
            else:
                cfg.branch_exit(entry.parent_node.out(0))  # the block has no outputs yet
            got = "returned"
        except Exception as e:  # noqa: BLE001
            got = type(e).__name__
        ctx.ev(0, "branch_exit (refused)", how, got)
        ctx.fault("refused_branch_exit")
        if got == "returned":
            ctx.discard = "refused-request-was-accepted"
            return
        if ch.coin(1, 2, "delete-stray-link"):
            for a, b_ in list(cfg.hugr.links()):
                if b_.node == cfg.exit and a.node == entry.parent_node:
                    cfg.hugr.delete_link(a, b_)
        entry.set_single_succ_outputs(*entry.inputs())
        cfg.branch_exit(entry[0])
        ctx.steps += 3
        ctx.probe("cfg_closed_after_refused_branch_exit")
        probe_handle(ctx, cfg.parent_node, n_out, "cfg-closed-after-refused-branch_exit", exhaustive)
        if nested:
            node = next(c for c in d.hugr.children(d.parent_node) if c.idx == cfg.parent_node.idx)
            probe_handle(ctx, node, n_out, "children()-after-refused-branch_exit", False)
        return
    if which == 5:
        # (f) a link into the Output node beyond the outputs that will be set (added by mistake and deleted again, or
        # left by a refused set_outputs whose last argument is not a dataflow wire), then the outputs are set
        n_out = ch.draw(4, "n-out")
        d = Dfg(B)
        inner = d.add_nested(d.inputs()[0])
        x = inner.inputs()[0]
        if ch.coin(1, 2, "via-refused-set_outputs"):
            c = inner.add_const(val.TRUE)
            try:
                inner.set_outputs(*[x] * (n_out + 1 + ch.draw(2, "extra")), c)
                got = "returned"
            except Exception as e:  # noqa: BLE001
                got = type(e).__name__
            ctx.ev(0, "set_outputs(..., <Const node>) refused", None, got)
            ctx.fault("refused_set_outputs")
            if got == "returned":
                ctx.discard = "refused-request-was-accepted"
                return
            for a, b_ in list(inner.hugr.links()):
                if b_.node == inner.output_node:
                    inner.hugr.delete_link(a, b_)
        else:
            off = n_out + ch.draw(3, "extra")
            inner.hugr.add_link(x.out_port(), inner.output_node.inp(off))
            inner.hugr.delete_link(x.out_port(), inner.output_node.inp(off))
            ctx.fault("stray_link_added_and_deleted")
        inner.set_outputs(*[x] * n_out)
        ctx.steps += 3
        ctx.probe("outputs_set_after_stray_link_into_output_node")
        probe_handle(ctx, inner.parent_node, n_out, "dfg-closed-after-stray-output-link", exhaustive)
        node = next(c for c in d.hugr.children(d.parent_node) if c.idx == inner.parent_node.idx)
        probe_handle(ctx, node, n_out, "children()-after-stray-output-link", False)
        return
    if which == 7:
        # (h) a detached container builder (the root of its own HUGR) is a handle too: once its outputs are set it
        # enumerates them, before and after it is inserted somewhere
        from hugr.build.cfg import Cfg
        from hugr.build.cond_loop import Conditional, TailLoop
        kind = ch.pick(["dfg", "tailloop", "conditional", "cfg"], "container")
        n_out = ch.draw(4, "n-out")
        if kind == "dfg":
            b = Dfg(B)
            b.set_outputs(*[b.inputs()[0]] * n_out)
        elif kind == "tailloop":
            b = TailLoop([], [B] * n_out)
            b.set_loop_outputs(b.add_op(ops.Tag(1, tys.Sum([[], []]))), *b.inputs())
        elif kind == "conditional":
            b = Conditional(tys.Bool, [])
            for k in (0, 1):
                with b.add_case(k) as c:
                    c.set_outputs(*[c.load(val.TRUE) for _ in range(n_out)])
        else:
            b = Cfg(*[B] * n_out)
            with b.add_entry() as e:
                e.set_single_succ_outputs(*e.inputs())
            b.branch_exit(e[0])
        ctx.ev(0, f"detached {kind} with {n_out} outputs finished")
        ctx.steps += 2
        ctx.probe("detached_root_builder_as_handle")
        probe_handle(ctx, b.parent_node, n_out, f"detached-{kind}-root", exhaustive)
        return
    if which == 6:
        # (g) size class: a container is opened, many siblings are added after it, only then are its outputs set
        kind = ch.pick(["dfg", "tailloop", "conditional", "cfg"], "container")
        n_out = 1 + ch.draw(3, "n-out")
        later = ch.pick([1, 8, 31, 32, 33, 40, 70, 130], "later-siblings")
        d = Dfg(B)
        (b,) = d.inputs()
        if kind == "dfg":
            inner = d.add_nested(b)
        elif kind == "tailloop":
            inner = d.add_tail_loop([], [b])
            n_out = 1
        elif kind == "conditional":
            inner = d.add_conditional(b)
        else:
            inner = d.add_cfg(*[b] * n_out)
        for _ in range(later):
            d.add_op(ops.Noop(B), b)
        ctx.ev(0, f"{kind} opened, {later} siblings added, then outputs set", n_out)
        ctx.probe("container_closed_after_32_or_more_later_siblings" if later >= 32 else "container_closed_after_later_siblings")
        if kind == "dfg":
            inner.set_outputs(*[inner.inputs()[0]] * n_out)
        elif kind == "tailloop":
            inner.set_loop_outputs(inner.add_op(ops.Tag(1, tys.Sum([[], []]))), *inner.inputs())
        elif kind == "conditional":
            for k in (0, 1):
                with inner.add_case(k) as c:
                    c.set_outputs(*[c.load(val.TRUE) for _ in range(n_out)])
        else:
            with inner.add_entry() as e:
                e.set_single_succ_outputs(*e.inputs())
            inner.branch_exit(e[0])
        ctx.steps += 3
        probe_handle(ctx, inner.parent_node, n_out, f"{kind}-closed-after-later-siblings", exhaustive)
        node = next(c for c in d.hugr.children(d.parent_node) if c.idx == inner.parent_node.idx)
        probe_handle(ctx, node, n_out, "children()-after-later-siblings", False)
        return
    # (c) last output linked early through the graph API
    kind = ch.pick(["dfg", "tailloop", "conditional", "cfg"], "container")
    n_out = 1 + ch.draw(3, "n-out")
    d = Dfg(B)
    (b,) = d.inputs()
    ctx.probe("container_output_linked_before_outputs_set:" + kind)

    def early_link(container_node):
        x = d.hugr.add_node(ops.Noop(B), d.parent_node, num_outs=1)
        d.hugr.add_link(container_node.out(n_out - 1), x.inp(0))
        ctx.ev(0, "add_link(container.out(last), consumer)", {"kind": kind, "n_out": n_out})
        ctx.steps += 1

    if kind == "dfg":
        inner = d.add_nested(b)
        early_link(inner.parent_node)
        inner.set_outputs(*[inner.inputs()[0]] * n_out)
        h = inner.parent_node
    elif kind == "tailloop":
        tl = d.add_tail_loop([], [b] if n_out else [])
        n_out = 1
        early_link(tl.parent_node)
        tl.set_loop_outputs(tl.load(val.Unit) if False else tl.add_op(ops.Tag(1, tys.Sum([[], []])),), *tl.inputs())
        h = tl.parent_node
    elif kind == "conditional":
        cond = d.add_conditional(b)
        early_link(cond.parent_node)
        for k in (0, 1):
            with cond.add_case(k) as c:
                c.set_outputs(*[c.load(val.TRUE) for _ in range(n_out)])
        h = cond.parent_node
    else:
        cfg = d.add_cfg(*[b] * n_out)
        early_link(cfg.parent_node)
        with cfg.add_entry() as e:
            e.set_single_succ_outputs(*e.inputs())
        cfg.branch_exit(e[0])
        h = cfg.parent_node
    ctx.steps += 2
    probe_handle(ctx, h, n_out, f"{kind}-closed-after-early-link", exhaustive)
    node = next(c for c in d.hugr.children(d.parent_node) if c.idx == h.idx)
    probe_handle(ctx, node, n_out, "children()-after-early-link", False)
