"""C01 — builder output is valid: interleaved open builders (engine B) vs the reference validator."""

from __future__ import annotations

import json

from ..engines.b_builders import BuilderSim, Discard
from ..oracles import refvalidate

PROP = "C01"
NONTRIVIAL_STEPS = 3


def check_valid(ctx, hugr, where):
    ctx.checked("validate")
    try:
        doc = json.loads(hugr.to_json())
    except Exception as e:  # noqa: BLE001
        ctx.violate("serialise", f"to_json-raised:{type(e).__name__}", {"where": where, "error": repr(e)[:300]})
        return None
    errs = refvalidate.validate(doc)
    for (clause, cls, detail) in errs[:6]:
        ctx.violate(clause, cls, {"where": where, **{k: _short(v) for k, v in detail.items()}})
    return doc


def _short(v):
    s = json.dumps(v, default=repr)
    return v if len(s) < 400 else s[:400]


def run(ctx):
    ch = ctx.ch
    feats = {"cond": ch.coin(3, 4, "f-cond"), "loop": ch.coin(3, 4, "f-loop"), "cfg": ch.coin(3, 4, "f-cfg"),
             "calls": ch.coin(3, 4, "f-calls"), "poly": ch.coin(1, 2, "f-poly"), "meta": ch.coin(1, 2, "f-meta"),
             "insert": ch.coin(1, 2, "f-insert"), "refusals": ch.coin(1, 4, "f-refusals"),
             "odd_names": ch.coin(1, 3, "f-odd-names"), "second_ext": ch.coin(1, 3, "f-second-ext"), "stray_links": ch.coin(1, 3, "f-stray-links")}
    cap = 25 + ch.draw(60 if ctx.cfg.get("tier") != "thorough" else 150, "max-steps")
    try:
        sim = BuilderSim(ctx, features=feats, max_steps=cap)
        ctx.profile = {"root": sim.root_kind, "depth": sim.max_depth, "row": sim.max_row_width,
                       **{k: v for k, v in feats.items()}}
        state = {"last": -1}

        def quiescent_check(sim):
            # whenever no builder is open below the root the HUGR is complete and must already be valid
            # (catches a defect that a later call happens to repair, e.g. a port count fixed up by a later link)
            from ..engines.b_builders import Actor, ModuleCtl
            if any(isinstance(a, Actor) and not a.closed for a in sim.actors):
                return
            if any(not isinstance(a, (Actor, ModuleCtl)) and not a.closed for a in sim.actors):
                return
            n = len(sim.hugr)
            if n == state["last"] or n < 4 or not ch.coin(1, 2, "quiescent-validate"):
                return
            state["last"] = n
            ctx.probe("quiescent_point_validated")
            check_valid(ctx, sim.hugr, "quiescent")
        sim.after_step = quiescent_check
        sim.run()
    except Discard as d:
        ctx.discard = str(d)
        return
    check_valid(ctx, sim.hugr, "end")
