"""C10 — extension definitions round-trip; bundled standard library matches the spec.

Round-trip half: registry-building histories (engine E) -> to_json -> reader node in another
interpreter (other hash seed) -> from_json -> compare -> to_json again.  Std-lib half: a boot-time
static comparison (said plainly), evaluated once per batch."""

from __future__ import annotations

import json
import os

from .. import restart
from ..engines.e_registry import ExtSession
from ..oracles import refsem as R
from ..oracles import wire
from ..reader_main import ext_summary

PROP = "C10"
NONTRIVIAL_STEPS = 3
_boot_done = False


def boot_stdlib(ctx):
    """Static: bundled std JSON == specification/std_extensions, each loads, helpers denote real definitions."""
    import hugr.std as std
    from hugr import tys
    from hugr.ext import Extension

    ctx.checked("stdlib-static")
    repo = os.environ.get("HUGR_REPO", "/repo")
    spec = os.path.join(repo, "specification", "std_extensions")
    bundled = os.path.join(os.path.dirname(std.__file__), "_json_defs")
    spec_files, bun_files = {}, {}
    for base, out in ((spec, spec_files), (bundled, bun_files)):
        for dp, _dn, fns in os.walk(base):
            for fn in fns:
                if fn.endswith(".json"):
                    out[os.path.relpath(os.path.join(dp, fn), base)] = open(os.path.join(dp, fn), "rb").read()
    if sorted(spec_files) != sorted(bun_files):
        ctx.violate("stdlib-files", "file-set-differs", {"only_spec": sorted(set(spec_files) - set(bun_files)),
                                                         "only_bundled": sorted(set(bun_files) - set(spec_files))})
    for k in sorted(set(spec_files) & set(bun_files)):
        if spec_files[k] != bun_files[k]:
            ctx.violate("stdlib-files", "bytes-differ", {"file": k})
    loaded = {}
    for k, data in sorted(spec_files.items()):
        try:
            e = Extension.from_json(data.decode("utf-8"))
            loaded[e.name] = e
        except Exception as ex:  # noqa: BLE001
            ctx.violate("stdlib-load", f"load-raised:{type(ex).__name__}", {"file": k, "error": str(ex)[:200]})
    # typed helpers
    from hugr.std.collections.array import Array, ArrayVal
    from hugr.std.collections.list import List, ListVal
    from hugr.std.collections.static_array import StaticArray, StaticArrayVal
    from hugr.std.float import FLOAT_T, FloatVal
    from hugr.std.int import INT_T, DivMod, IntVal, int_t
    from hugr.std.logic import Not
    from hugr.std.prelude import STRING_T, StringVal

    def kinds_match(arg, param):
        return ((isinstance(arg, tys.TypeTypeArg) and isinstance(param, tys.TypeTypeParam))
                or (isinstance(arg, tys.BoundedNatArg) and isinstance(param, tys.BoundedNatParam)
                    and (param.upper_bound is None or arg.n < param.upper_bound))
                or (isinstance(arg, tys.StringArg) and isinstance(param, tys.StringParam))
                or (isinstance(arg, tys.SequenceArg) and isinstance(param, (tys.ListParam, tys.TupleParam)))
                or isinstance(arg, tys.VariableArg))

    def check_type(label, t, ext_name, def_name):
        e = loaded.get(ext_name)
        if e is None or def_name not in e.types:
            ctx.violate("stdlib-helpers", f"type-not-defined:{label}", {"extension": ext_name, "type": def_name})
            return
        d = e.types[def_name]
        td = t.type_def
        if td.name != def_name or td.get_extension().name != ext_name:
            ctx.violate("stdlib-helpers", f"type-denotes-other-definition:{label}", {"got": [td.get_extension().name, td.name]})
        if len(t.args) != len(d.params) or not all(kinds_match(a, p) for a, p in zip(t.args, d.params)):
            ctx.violate("stdlib-helpers", f"type-params-mismatch:{label}", {"args": [repr(a) for a in t.args], "params": [repr(p) for p in d.params]})
        if [repr(p) for p in td.params] != [repr(p) for p in d.params]:
            ctx.violate("stdlib-helpers", f"typedef-differs-from-spec:{label}", {})

    def check_op(label, op, ext_name, def_name):
        e = loaded.get(ext_name)
        if e is None or def_name not in e.operations:
            ctx.violate("stdlib-helpers", f"op-not-defined:{label}", {"extension": ext_name, "op": def_name})
            return
        d = e.operations[def_name]
        od = op.op_def()
        if od.name != def_name or od.get_extension().name != ext_name:
            ctx.violate("stdlib-helpers", f"op-denotes-other-definition:{label}", {"got": [od.get_extension().name, od.name]})
        pf = d.signature.poly_func
        if pf is not None and len(op.type_args()) != len(pf.params):
            ctx.violate("stdlib-helpers", f"op-params-mismatch:{label}", {"type_args": len(op.type_args()), "params": len(pf.params)})
        elif pf is not None and not all(kinds_match(a, p) for a, p in zip(op.type_args(), pf.params)):
            ctx.violate("stdlib-helpers", f"op-param-kinds-mismatch:{label}", {})
        elif pf is not None:
            # the helper's signature is the definition's signature at the helper's own type arguments
            args = [a._to_serial_root().model_dump(mode="json") for a in op.type_args()]
            want = subst(pf.body._to_serial().model_dump(mode="json"), args)
            got = op.outer_signature()._to_serial().model_dump(mode="json")
            if (got["input"], got["output"]) != (want["input"], want["output"]):
                ctx.violate("stdlib-helpers", f"op-signature-is-not-the-definition-at-its-arguments:{label.split('(')[0]}",
                            {"label": label, "type_args": args, "signature": got, "definition_instantiated": want})

    def subst(x, args):
        """Substitute type arguments for the variables of a serialised type expression."""
        if isinstance(x, list):
            out = []
            for e in x:
                if isinstance(e, dict) and e.get("t") == "R":
                    out.extend(el["ty"] for el in args[e["i"]]["elems"])
                else:
                    out.append(subst(e, args))
            return out
        if isinstance(x, dict):
            if x.get("t") == "V":
                return args[x["i"]]["ty"]
            if x.get("tya") == "Variable":
                return args[x["idx"]]
            return {k: subst(v, args) for k, v in x.items()}
        return x

    for w in range(7):
        check_type(f"int_t({w})", int_t(w), "arithmetic.int.types", "int")
        v = IntVal(1, w).to_value()
        if v.typ != int_t(w) or "arithmetic.int.types" not in v.extensions:
            ctx.violate("stdlib-helpers", f"IntVal-type:{w}", {})
    check_type("INT_T", INT_T, "arithmetic.int.types", "int")
    check_type("FLOAT_T", FLOAT_T, "arithmetic.float.types", "float64")
    check_type("STRING_T", STRING_T, "prelude", "string")
    check_type("Array", Array(tys.Bool, 3), "collections.array", "array")
    check_type("List", List(tys.Qubit), "collections.list", "List")
    check_type("StaticArray", StaticArray(tys.Bool), "collections.static_array", "static_array")
    if FloatVal(1.0).to_value().typ != FLOAT_T or StringVal("x").to_value().typ != STRING_T:
        ctx.violate("stdlib-helpers", "const-type", {})
    from hugr import val
    if ArrayVal([val.TRUE, val.FALSE], tys.Bool).to_value().typ != Array(tys.Bool, 2):
        ctx.violate("stdlib-helpers", "ArrayVal-type", {})
    if ListVal([val.TRUE], tys.Bool).to_value().typ != List(tys.Bool):
        ctx.violate("stdlib-helpers", "ListVal-type", {})
    if StaticArrayVal([val.TRUE], tys.Bool, "n").to_value().typ != StaticArray(tys.Bool):
        ctx.violate("stdlib-helpers", "StaticArrayVal-type", {})
    check_op("Not", Not, "logic", "Not")
    check_op("DivMod", DivMod, "arithmetic.int", "idivmod_u")
    import dataclasses
    for w in range(7):
        # the other ways to obtain the helper: another width, and back from the extension operation it denotes
        dm = dataclasses.replace(DivMod, width=w)
        check_op(f"DivMod(width={w})", dm, "arithmetic.int", "idivmod_u")
        check_op(f"DivMod.from_ext(width={w})", type(DivMod).from_ext(dm.ext_op), "arithmetic.int", "idivmod_u")
    from hugr import ops
    check_op("MakeTuple", ops.MakeTuple([tys.Bool]), "prelude", "MakeTuple")
    check_op("UnpackTuple", ops.UnpackTuple([tys.Bool]), "prelude", "UnpackTuple")
    check_op("Noop", ops.Noop(tys.Bool), "prelude", "Noop")


def norm_summary(s):
    """Comparable form: op signatures with requirement sets canonicalised."""
    out = json.loads(json.dumps(s))
    for o in out["operations"].values():
        if o["sig"] is not None:
            o["sig"] = repr(R.cpoly(o["sig"]))
    return out


def run(ctx):
    global _boot_done
    ch = ctx.ch
    # the std-lib half is static: evaluated once per interpreter, its verdict re-issued in every run
    if _boot_done is False:
        from ..kernel import Ctx
        tmp = Ctx(PROP, ctx.ch)
        boot_stdlib(tmp)
        _boot_done = tmp.violations
    ctx.checked("stdlib-static")
    for v in _boot_done:
        ctx.violate(v["clause"], v["cls"], v["detail"])
    if ctx.violations:
        return
    sess = ExtSession(ctx)
    ctx.profile = {"n_ext": len(sess.exts), "shared": ch.coin(1, 4, "p-shared")}
    nsteps = 2 + ch.draw(14, "nsteps")
    for _ in range(nsteps):
        sess.step()
        if ch.coin(1, 10, "continue-on-a-deep-copy"):
            # the client forks an extension (copy.deepcopy) and the history goes on with the copy: a copy is an extension
            # in its own right (its definitions are its own and report it as their owner), equal to the original so far
            import copy
            i = ch.draw(len(sess.exts), "which-ext")
            orig = sess.exts[i]
            try:
                d_before = orig.to_json()
                cp = copy.deepcopy(orig)
                ctx.ev("client", "copy.deepcopy(extension)", orig.name)
                ctx.probe("continued_on_a_deep_copy")
                ctx.checked("copy")
                if cp.to_json() != d_before or orig.to_json() != d_before:
                    ctx.violate("preserve", "deep-copy-serialises-differently", {"ext": orig.name})
                if any(od is orig.operations[k] for k, od in cp.operations.items()) or any(td is orig.types[k] for k, td in cp.types.items()):
                    ctx.violate("owner", "deep-copy-shares-definitions-with-the-original", {"ext": orig.name})
                sess.exts[i] = cp
            except Exception as ex:  # noqa: BLE001
                ctx.violate("serialise", f"deepcopy-or-to_json-raised:{type(ex).__name__}", {"ext": orig.name, "error": str(ex)[:200]})
                return
        if ch.coin(1, 4, "mid-history-serialise"):
            # a query in the middle of the history (documents are written at any time, not only at the end)
            e = sess.exts[ch.draw(len(sess.exts), "which-ext")]
            try:
                e.to_json()
                ctx.ev("query", "to_json", e.name)
                ctx.probe("serialised_mid_history")
            except Exception as ex:  # noqa: BLE001
                ctx.violate("serialise", f"to_json-raised:{type(ex).__name__}", {"ext": e.name, "error": str(ex)[:200]})
                return
        if ctx.profile["shared"] or not any(p.endswith("added_to_second_extension") for p in ctx.probes):
            sess.check_owner()
        if ctx.violations:
            return
    cross = ch.coin(1, 3, "cross-restart")
    from hugr.ext import Extension
    for e in sess.exts:
        ctx.checked("roundtrip")
        try:
            s1 = e.to_json()
            doc1 = json.loads(s1)
        except Exception as ex:  # noqa: BLE001
            ctx.violate("serialise", f"to_json-raised:{type(ex).__name__}", {"ext": e.name, "error": str(ex)[:200]})
            continue
        ctx.checked("schema")
        for (ptr, msg) in wire.schema_errors(doc1, "Extension"):
            ctx.violate("schema", "extension:" + (ptr or "root"), {"ext": e.name, "message": msg})
        before = norm_summary(ext_summary(e))
        if cross:
            resp = restart.request({"kind": "extension", "doc": s1})
            ctx.probe("restart_read")
            if "error" in resp:
                ctx.violate("load", f"{resp['error']}:reader", {"ext": e.name, "msg": resp["msg"]})
                continue
            after, doc2 = norm_summary(resp["summary"]), json.loads(resp["json2"])
        else:
            try:
                e2 = Extension.from_json(s1)
                after, doc2 = norm_summary(ext_summary(e2)), json.loads(e2.to_json())
            except Exception as ex:  # noqa: BLE001
                ctx.violate("load", f"{type(ex).__name__}", {"ext": e.name, "msg": str(ex)[:200]})
                continue
        where = "reader" if cross else "same-process"
        for field in ("name", "version", "runtime_reqs"):
            if before[field] != after[field]:
                ctx.violate("preserve", field, {"ext": e.name, "where": where, "before": before[field], "after": after[field]})
        for coll in ("types", "operations", "values"):
            if sorted(before[coll]) != sorted(after[coll]):
                ctx.violate("preserve", f"{coll}-set", {"ext": e.name, "before": sorted(before[coll]), "after": sorted(after[coll])})
                continue
            for k in before[coll]:
                for f, v in before[coll][k].items():
                    if after[coll][k].get(f) != v:
                        ctx.violate("preserve", f"{coll}:{f}", {"ext": e.name, "def": k, "where": where, "before": v, "after": after[coll][k].get(f)})
        if not cross and ch.coin(1, 2, "edit-loaded-copy"):
            # the history continues on the loaded copy: edit it in place, then load the stored document again
            ctx.checked("load-deterministic")
            for od in list(e2.operations.values())[:3]:
                od.misc["edited"] = len(ctx.events)
                od.description = od.description + " (edited)"
            for td in list(e2.types.values())[:2]:
                td.description = "edited"
            e2.runtime_reqs.add("edited.req")
            ctx.probe("loaded_copy_edited_in_place")
            try:
                again = norm_summary(ext_summary(Extension.from_json(s1)))
                if again != after:
                    from ..engines.c_persist import _first_diff
                    ctx.violate("load-deterministic", "same-document-loads-differently-after-editing-a-loaded-copy",
                                {"ext": e.name, "diff": _first_diff(after, again)})
            except Exception as ex:  # noqa: BLE001
                ctx.violate("load", f"second-load-raised:{type(ex).__name__}", {"ext": e.name, "msg": str(ex)[:200]})
        ctx.checked("fixpoint")
        if doc2 != doc1:
            from ..engines.c_persist import _first_diff
            d = _first_diff(doc1, doc2) or {}
            path = [p for p in d.get("path", "").split("/") if p]
            gen = "/".join(("*" if (p.isdigit() or i == 1) else p) for i, p in enumerate(path))[:60]
            if "runtime_reqs" in d.get("path", ""):
                ctx.probe("requirement_order_differs")
                gen = "requirement-order:" + ("extension" if path[:1] == ["runtime_reqs"] else "op-signature")
            ctx.violate("fixpoint", gen, {"ext": e.name, "where": where, "diff": d})


def batch_extra():
    restart.stop()
    return {"reader_restarts": restart.stats["restarts"], "reader_requests": restart.stats["requests"]}
