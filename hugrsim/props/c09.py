"""C09 — package envelopes round-trip and carry the documented header (engine C).

Fault-free leg: seeded packages x configurations, to_bytes/from_bytes and to_str/from_str, in
process and across a restart (reader node).  Fault leg: the header space is ENUMERATED (all
format/flags byte pairs in the thorough tier, all truncations below a header, all single-bit flips
of the magic) in front of a correct payload - the storage faults the statement names.  Seeded
payload faults (short / flipped payload) have no stated oracle and only feed reach counters."""

from __future__ import annotations

import base64
import json

from .. import restart
from ..engines.b_builders import BuilderSim, Discard
from ..engines.e_registry import ExtSession

PROP = "C09"
NONTRIVIAL_STEPS = 1
MAGIC = b"HUGRiHJv"
_stats = {"header_pairs_checked": 0, "truncations_checked": 0, "magic_flips_checked": 0, "random_magics_checked": 0}
ZSTD_LEVELS = [None, 0, 1, 3, 19, 22]


def small_package(ctx, max_modules=4, max_exts=3):
    from hugr.package import Package

    ch = ctx.ch
    modules = []
    for _ in range(ch.draw(max_modules + 1, "n-modules")):
        sim = BuilderSim(ctx, root_kind="module", features={"cond": True, "loop": False, "cfg": ch.coin(1, 3, "f-cfg"), "calls": True,
                                                           "poly": False, "meta": True}, max_steps=4 + ch.draw(12, "max-steps"))
        sim.run()
        if ch.coin(1, 2, "module-name"):
            sim.module.metadata["name"] = ch.pick(["m", "né ☃", ""], "name")
        if ch.coin(1, 12, "big-module"):
            # a payload well beyond any internal block size (200 kB of poorly compressible text)
            blob = "".join(chr(33 + (i * 7919 + i // 13) % 90) for i in range(200_000))
            sim.module.metadata["blob"] = blob
            ctx.probe("payload_over_128KiB")
        modules.append(sim.hugr)
    if ch.coin(1, 20, "many-modules"):
        # size class: a package of many (tiny, distinguishable) modules
        from hugr import tys
        from hugr.build.function import Module
        n = 30 + ch.draw(150, "n-more-modules")
        for i in range(n):
            m = Module()
            m.declare_function(f"f{i}", tys.PolyFuncType([], tys.FunctionType([tys.Bool] * (i % 3), [])))
            modules.append(m.hugr)
        ctx.probe("package_of_many_modules")
    exts = []
    if ch.draw(max_exts + 1, "n-exts"):
        sess = ExtSession(ctx)
        for _ in range(1 + ch.draw(6, "ext-steps")):
            sess.step()
        exts = sess.exts[:max_exts]
        if exts and ch.coin(1, 5, "repeat-extension"):
            # the same extension listed twice, or an older version of it under the same name
            if ch.coin(1, 2, "same-object"):
                exts.append(exts[0])
            else:
                from semver import Version
                from hugr.ext import Extension
                exts.append(Extension(exts[0].name, Version(9, 9, 9)))
            ctx.probe("package_repeats_an_extension_name")
    return Package(modules, exts)


def docs_of(pkg):
    return [json.loads(m.to_json()) for m in pkg.modules], [json.loads(e.to_json()) for e in pkg.extensions]


def decode(data: bytes):
    """-> ("ok", package) | ("ValueError", msg) | ("other", exception name)"""
    from hugr.package import Package
    try:
        return "ok", Package.from_bytes(data)
    except ValueError as e:
        return "ValueError", str(e)[:100]
    except Exception as e:  # noqa: BLE001
        return "other", type(e).__name__


def enumerate_headers(ctx, fmt_bytes, flag_values, payload_plain, payload_zstd, want_docs):
    """Every (format, flags) pair in front of a correct payload (compressed iff bit 0)."""
    for f in fmt_bytes:
        for fl in flag_values:
            data = MAGIC + bytes([f, fl]) + (payload_zstd if fl & 1 else payload_plain)
            kind, res = decode(data)
            _stats["header_pairs_checked"] += 1
            ctx.checked("reject-format" if f != 63 else "accept-json")
            if f == 63:
                if kind != "ok":
                    ctx.violate("header", f"json-format-rejected:{kind}", {"format": f, "flags": fl, "msg": str(res)})
                elif docs_of(res) != want_docs:
                    ctx.violate("roundtrip", "decoded-package-differs", {"format": f, "flags": fl})
            elif kind == "ok":
                ctx.violate("reject", f"unknown-format-decoded:{'known-unsupported' if f in (1, 2) else 'unknown'}", {"format": f, "flags": fl})
            elif kind != "ValueError":
                ctx.violate("reject", f"unknown-format:{res}", {"format": f, "flags": fl})


def run(ctx):
    import pyzstd

    from hugr.envelope import EnvelopeConfig, EnvelopeFormat
    from hugr.package import Package

    ch = ctx.ch
    tier = ctx.cfg.get("tier", "quick")
    r, bi, nb = ctx.cfg.get("run_index", 0), ctx.cfg.get("batch_index", 0), max(1, ctx.cfg.get("batches", 1))
    try:
        pkg = small_package(ctx)
    except Discard as d:
        ctx.discard = str(d)
        return
    ctx.profile = {"modules": len(pkg.modules), "extensions": len(pkg.extensions)}
    want = docs_of(pkg)
    # ---- enumeration unit: format bytes assigned to (batch, run) ------------------------------------
    unit = r * nb + bi
    if unit < 256 and not ctx.cfg.get("replay_seeded_only"):
        payload = pkg._to_serial().model_dump_json().encode("utf-8")
        flags = range(256) if (tier == "thorough" or unit == 63) else sorted(set(range(0, 256, 16)) | {1, 64, 65, 255})
        ctx.ev("disk", "enumerate-headers", {"format_byte": unit, "flags": len(list(flags))})
        ctx.fault("format_byte", len(list(flags)))
        enumerate_headers(ctx, [unit], flags, payload, pyzstd.compress(payload), want)
        ctx.profile["enumerated_format_byte"] = unit
    # ---- fault-free leg -----------------------------------------------------------------------------
    level = ch.pick(ZSTD_LEVELS, "zstd")
    cfg = EnvelopeConfig(format=EnvelopeFormat.JSON, zstd=level)
    if ch.coin(1, 3, "failed-encode-first"):
        # fault, then workload: an encoding that fails (illegal compression level; a payload format that needs the absent
        # native module) is caught by the caller; the next, valid encoding must not be affected
        bad_cfg = EnvelopeConfig(format=EnvelopeFormat.JSON, zstd=23) if ch.coin(1, 2, "bad-level") else EnvelopeConfig(format=EnvelopeFormat.MODULE, zstd=None)
        try:
            pkg.to_bytes(bad_cfg)
            ctx.probe("failing_encode_returned")
        except Exception as e:  # noqa: BLE001
            ctx.ev("writer", "to_bytes(failing config)", repr(bad_cfg), type(e).__name__)
            ctx.fault("failed_encode_before_the_valid_one")
    default_cfg = level is None and ch.coin(1, 3, "default-config")
    ctx.steps += 1
    try:
        data = pkg.to_bytes() if default_cfg else pkg.to_bytes(cfg)
    except Exception as e:  # noqa: BLE001
        ctx.violate("encode", f"to_bytes-raised:{type(e).__name__}", {"zstd": level, "error": str(e)[:200]})
        return
    ctx.ev("writer", "to_bytes", {"zstd": level, "default": default_cfg}, len(data))
    want_data = want  # what `data` encodes (the package may be mutated and re-encoded below)
    # headers are values: one parsed earlier still describes its own envelope after other envelopes have been handled
    from hugr.envelope import EnvelopeHeader
    ctx.checked("header-objects")
    other_level = None if level is not None else 3
    data_other = pkg.to_bytes(EnvelopeConfig(format=EnvelopeFormat.JSON, zstd=other_level))
    h1 = EnvelopeHeader.from_bytes(data)
    h2 = EnvelopeHeader.from_bytes(data_other)
    decode(data_other)
    for hd, dd, lv in ((h1, data, level), (h2, data_other, other_level)):
        if hd.zstd != (lv is not None) or hd.to_bytes() != dd[:10] or hd.format != EnvelopeFormat.JSON:
            ctx.violate("header", "parsed-header-object-changed-after-handling-another-envelope",
                        {"zstd_flag": hd.zstd, "expected": lv is not None, "bytes": hd.to_bytes().hex(), "envelope": dd[:10].hex()})
    ctx.checked("header")
    if data[:8] != MAGIC:
        ctx.violate("header", "magic", {"got": repr(data[:8])})
    if len(data) < 10 or data[8] != 63:
        ctx.violate("header", "format-byte", {"got": data[8] if len(data) > 8 else None})
    elif (data[9] & 1) != (1 if level is not None else 0):
        ctx.violate("header", "compression-flag", {"flags": data[9], "zstd": level})
    elif (data[9] >> 6) != 0b01:
        ctx.violate("header", "bits-7-6", {"flags": data[9]})
    if level is not None and len(data) >= 14 and data[10:14] != b"\x28\xb5\x2f\xfd":
        ctx.violate("header", "payload-not-zstd-despite-flag", {"zstd": level})
    if level is None and data[10:11] != b"{":
        ctx.violate("header", "payload-not-plain-json", {})
    # the payload is a JSON document (RFC 8259: no NaN / Infinity tokens)
    from ..oracles import wire
    ctx.checked("payload-json")
    try:
        wire.strict_loads(pyzstd.decompress(data[10:]) if level is not None else data[10:])
    except wire.NotJson as e:
        ctx.violate("roundtrip", "payload-is-not-json", {"zstd": level, "error": str(e)})
    except Exception:  # noqa: BLE001  (judged by the round trip below)
        pass
    cross = ch.coin(1, 4, "cross-restart")
    ctx.checked("roundtrip")
    if cross:
        resp = restart.request({"kind": "package", "data": base64.b64encode(data).decode()})
        ctx.probe("restart_read")
        if "error" in resp:
            ctx.violate("roundtrip", f"from_bytes-raised:{resp['error']}:reader", {"zstd": level, "msg": resp["msg"]})
        else:
            got = ([json.loads(x) for x in resp["modules"]], [json.loads(x) for x in resp["extensions"]])
            if got != want:
                ctx.violate("roundtrip", "package-differs:reader", _pkg_diff(want, got))
    else:
        kind, res = decode(data)
        if kind != "ok":
            ctx.violate("roundtrip", f"from_bytes-raised:{kind}", {"zstd": level, "msg": str(res)})
        else:
            got = docs_of(res)
            if got != want:
                ctx.violate("roundtrip", "package-differs", _pkg_diff(want, got))
    # ---- history: mutate an extension of the package (same definition counts), encode again -----------
    if pkg.extensions and ch.coin(1, 2, "re-encode-after-mutation"):
        from hugr import ext as hext
        from hugr import tys
        e = pkg.extensions[ch.draw(len(pkg.extensions), "which-ext")]
        m = ch.draw(4, "mutation")
        if m == 0 and e.operations:
            k = ch.pick(sorted(e.operations), "which-op")
            e.add_op_def(hext.OpDef(k, hext.OpDefSig(tys.FunctionType([tys.Qubit], [])), "replaced definition"))
            what = f"re-add op {k}"
        elif m == 1 and e.operations:
            k = ch.pick(sorted(e.operations), "which-op")
            e.operations[k].description = "edited in place"
            e.operations[k].misc["edited"] = True
            what = f"edit op {k} in place"
        elif m == 2 and e.types:
            k = ch.pick(sorted(e.types), "which-type")
            e.add_type_def(hext.TypeDef(k, "replaced type", [], hext.ExplicitBound(tys.TypeBound.Any)))
            what = f"re-add type {k}"
        else:
            e.runtime_reqs = set(sorted(e.runtime_reqs)[1:]) | {"swapped.req"}
            what = "swap a requirement"
        ctx.steps += 1
        same_obj = ch.coin(1, 2, "same-package-object")
        pkg2 = pkg if same_obj else Package(list(pkg.modules), list(pkg.extensions))
        ctx.ev("writer", "mutate+to_bytes", {"mutation": what, "same_package_object": same_obj})
        ctx.probe("re_encoded_after_mutation")
        want2 = docs_of(pkg2)
        kind, res = decode(pkg2.to_bytes(cfg))
        ctx.checked("roundtrip-after-mutation")
        if kind != "ok":
            ctx.violate("roundtrip", f"from_bytes-raised-after-mutation:{kind}", {"mutation": what, "msg": str(res)})
        elif docs_of(res) != want2:
            ctx.violate("roundtrip", "package-differs-after-mutation", dict(_pkg_diff(want2, docs_of(res)), mutation=what))
        want = want2
    # one configuration object used, changed, and used again (configurations are plain mutable records)
    if ch.coin(1, 4, "reuse-config-object-after-changing-it"):
        ctx.checked("config-reuse")
        lv2 = ch.pick([x for x in ZSTD_LEVELS if (x is None) != (level is None)], "zstd-2")
        cfg_r = EnvelopeConfig(format=EnvelopeFormat.JSON, zstd=level)
        pkg.to_bytes(cfg_r)
        cfg_r.zstd = lv2
        ctx.ev("writer", "cfg.zstd = ...; to_bytes(cfg)", {"from": level, "to": lv2})
        ctx.probe("config_object_changed_between_uses")
        try:
            d2 = pkg.to_bytes(cfg_r)
        except Exception as e:  # noqa: BLE001
            d2 = None
            ctx.violate("encode", f"to_bytes-raised-after-config-change:{type(e).__name__}", {"zstd": lv2})
        if d2 is not None:
            if len(d2) < 10 or (d2[9] & 1) != (1 if lv2 is not None else 0):
                ctx.violate("header", "compression-flag-after-config-change", {"flags": d2[9] if len(d2) > 9 else None, "zstd": lv2})
            kind, res = decode(d2)
            if kind != "ok":
                ctx.violate("roundtrip", f"from_bytes-raised-after-config-change:{kind}", {"zstd": lv2, "msg": str(res)})
            elif docs_of(res) != want:
                ctx.violate("roundtrip", "package-differs-after-config-change", {"zstd": lv2})
    # text form
    ctx.checked("text")
    try:
        text = pkg.to_str() if default_cfg else pkg.to_str(cfg)
    except ValueError:
        text = None
        if level is None:
            ctx.violate("text", "to_str-rejected-plain-json", {})
    except Exception as e:  # noqa: BLE001
        text = None
        ctx.violate("text", f"to_str-raised:{type(e).__name__}", {"zstd": level})
    if text is not None:
        ctx.probe("text_envelope")
        try:
            got = docs_of(Package.from_str(text))
            if got != want:
                ctx.violate("roundtrip", "package-differs:text", _pkg_diff(want, got))
        except Exception as e:  # noqa: BLE001
            ctx.violate("roundtrip", f"from_str-raised:{type(e).__name__}", {"zstd": level})
        if any(ord(c) > 127 for c in text):
            ctx.probe("non_ascii_in_text_envelope")
    for fmt in (EnvelopeFormat.MODULE, EnvelopeFormat.MODULE_WITH_EXTS):
        try:
            pkg.to_str(EnvelopeConfig(format=fmt, zstd=None))
            ctx.violate("text", "to_str-accepted-binary-format", {"format": fmt.name})
        except ValueError:
            pass
        except Exception as e:  # noqa: BLE001
            ctx.violate("text", f"to_str-binary-format-raised:{type(e).__name__}", {"format": fmt.name})
    # ---- storage faults with a stated oracle: truncation below a header, wrong magic --------------------
    ctx.checked("reject-short")
    for n in range(10):
        for src in (data, MAGIC + b"\x3f\x40"):
            kind, res = decode(src[:n])
            _stats["truncations_checked"] += 1
            if kind != "ValueError":
                ctx.violate("reject", f"short-input-{'decoded' if kind == 'ok' else res}", {"length": n})
    ctx.fault("truncated_below_header", 20)
    ctx.checked("reject-magic")
    for bit in range(64):
        bad = bytearray(data)
        bad[bit // 8] ^= 1 << (bit % 8)
        kind, res = decode(bytes(bad))
        _stats["magic_flips_checked"] += 1
        if kind != "ValueError":
            ctx.violate("reject", f"flipped-magic-{'decoded' if kind == 'ok' else res}", {"bit": bit})
    ctx.fault("magic_bit_flip", 64)
    for _ in range(4):
        m = bytes(ch.draw(256, "magic-byte") for _ in range(8))
        if m == MAGIC:
            continue
        kind, res = decode(m + data[8:])
        _stats["random_magics_checked"] += 1
        if kind != "ValueError":
            ctx.violate("reject", f"random-magic-{'decoded' if kind == 'ok' else res}", {"magic": m.hex()})
    ctx.fault("random_magic", 4)
    # ---- seeded payload faults: no stated oracle, probes only -------------------------------------------
    if len(data) > 12 and ch.coin(1, 2, "payload-fault"):
        if ch.coin(1, 2, "short-payload"):
            k = 10 + ch.draw(len(data) - 10, "cut")
            kind, res = decode(data[:k])
            ctx.fault("short_payload")
        else:
            i = 10 + ch.draw(len(data) - 10, "flip-pos")
            bad = bytearray(data)
            bad[i] ^= 1 << ch.draw(8, "flip-bit")
            kind, res = decode(bytes(bad))
            ctx.fault("payload_bit_flip")
        # fault, then workload: a failed read must not poison the next read of an intact envelope
        ctx.checked("read-after-failed-read")
        kind2, res2 = decode(data)
        if kind2 != "ok":
            ctx.violate("roundtrip", f"intact-envelope-rejected-after-a-failed-read:{res2 if kind2 == 'other' else kind2}", {"zstd": level, "first": kind})
        elif docs_of(res2) != want_data:
            ctx.violate("roundtrip", "intact-envelope-differs-after-a-failed-read", {"zstd": level})
        if kind == "ok":
            # (a flipped payload bit can decode to a package that cannot even be serialised again, e.g. an edge that names a
            #  node which does not exist: no oracle is stated for damaged payloads, so this only feeds a reach counter)
            try:
                same = docs_of(res) == want
            except Exception:  # noqa: BLE001
                same = None
            ctx.probe("payload_fault_decoded_to_" + ("same_package" if same else "different_package" if same is False else "package_that_cannot_be_serialised"))
        else:
            ctx.probe("payload_fault_rejected:" + ("ValueError" if kind == "ValueError" else res))


def _pkg_diff(want, got):
    from ..engines.c_persist import _first_diff
    return {"modules": [len(want[0]), len(got[0])], "extensions": [len(want[1]), len(got[1])],
            "diff": _first_diff({"m": want[0], "e": want[1]}, {"m": got[0], "e": got[1]})}


def batch_extra():
    restart.stop()
    return dict(_stats, reader_restarts=restart.stats["restarts"], reader_requests=restart.stats["requests"])
