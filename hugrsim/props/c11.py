"""C11 — extension resolution is conservative, idempotent and invisible on the wire (engine E).

A HUGR is loaded from its stored document (ops are opaque, types are opaque) and a session issues
resolve steps against registry snapshots: empty -> partial -> complete, each delivered 1-3 times
(duplicate delivery), i.e. partial knowledge that is later healed.  A second leg resolves nested
type expressions directly."""

from __future__ import annotations

import json

from ..engines.b_builders import BuilderSim, Discard, T

PROP = "C11"
NONTRIVIAL_STEPS = 2
_REG = None
GROUPS = ["types", "ops", "collections", "verif.q", "verif.u"]


_STD = None


def fresh_extensions():
    """Start of a run: the two test extensions are rebuilt (a session may re-publish / re-home their definitions)."""
    global _REG
    _REG = None
    _PARTIAL.clear()
    return extensions()


def extensions():
    """name -> Extension, grouped for registry snapshots."""
    global _REG
    if _REG is not None:
        return _REG
    from semver import Version

    import hugr.std.collections.array as arr
    import hugr.std.collections.list as lst
    import hugr.std.float as fl
    import hugr.std.int as it
    import hugr.std.logic as lg
    from hugr import ext as hext
    from hugr import tys
    from hugr.std import PRELUDE

    t = T()
    q = hext.Extension("verif.q", Version(0, 1, 0))
    for name, mk in t.QOPS.items():
        sig = mk().signature
        q.add_op_def(hext.OpDef(name, hext.OpDefSig(tys.FunctionType(sig.input, sig.output)), f"def of {name}"))
    u = hext.Extension("verif.u", Version(0, 1, 0))
    u.add_type_def(hext.TypeDef("ut", "an unregistered type", [tys.TypeTypeParam(tys.TypeBound.Any)], hext.FromParamsBound([0])))
    u.add_type_def(hext.TypeDef("vt", "takes a list of lists", [tys.ListParam(tys.ListParam(tys.TypeTypeParam(tys.TypeBound.Any)))],
                                hext.ExplicitBound(tys.TypeBound.Copyable)))
    u.add_type_def(hext.TypeDef("int", "same id as the std int type", [tys.BoundedNatParam(7)], hext.ExplicitBound(tys.TypeBound.Copyable)))
    u.add_op_def(hext.OpDef("uop", hext.OpDefSig(None, binary=True), "def of uop"))
    _REG = {
        "types": [it.INT_TYPES_EXTENSION, fl.FLOAT_TYPES_EXTENSION],
        "ops": [PRELUDE, lg.EXTENSION, it.INT_OPS_EXTENSION],
        "collections": [arr.EXTENSION, lst.EXTENSION],
        "verif.q": [q],
        "verif.u": [u],
    }
    return _REG


_PARTIAL = {}


def partial_of(e):
    """An 'older version' of extension e: same name, only every second definition (none if it has one)."""
    import copy

    from hugr import ext as hext

    if e.name not in _PARTIAL:
        p = hext.Extension(e.name, e.version)
        for coll, add in ((e.types, p.add_type_def), (e.operations, p.add_op_def)):
            for i, k in enumerate(sorted(coll)):
                if i % 2 == 1:
                    d = copy.copy(coll[k])
                    d._extension = None
                    if hasattr(d, "signature"):
                        d.signature = copy.copy(d.signature)
                    add(d)
        _PARTIAL[e.name] = p
    return _PARTIAL[e.name]


def members(groups):
    """groups: list of group names; a name with suffix '~' means the partial (older) versions."""
    out = []
    for g in groups:
        for e in extensions()[g.rstrip("~")]:
            out.append(partial_of(e) if g.endswith("~") else e)
    return out


def registry(groups, ctx=None):
    import copy

    from hugr import ext as hext
    from hugr.ext import ExtensionRegistry

    r = ExtensionRegistry()
    for e in members(groups):
        if ctx is not None and e.name.startswith("verif.") and ctx.ch.coin(1, 4, "registered-before-its-definitions"):
            # the same calls in another order: the extension is registered while still empty and receives its
            # definitions afterwards (the registry holds the extension object, not a snapshot of it)
            e2 = hext.Extension(e.name, e.version)
            r.add_extension(e2)
            if ctx.ch.coin(1, 2, "lookup-in-between"):
                for name in sorted(e.types):
                    try:
                        r.get_extension(e.name).get_type(name)
                    except Exception:  # noqa: BLE001  not there yet
                        ctx.fault("lookup_before_the_definition_exists")
            for coll, add in ((e.types, e2.add_type_def), (e.operations, e2.add_op_def)):
                for k in sorted(coll):
                    d = copy.copy(coll[k])
                    d._extension = None
                    if hasattr(d, "signature"):
                        d.signature = copy.copy(d.signature)
                    add(d)
            ctx.probe("extension_registered_before_its_definitions")
        else:
            r.add_extension(e)
    return r


def knows_type(groups, ext, name):
    return any(e.name == ext and name in e.types for e in members(groups))


def knows_op(groups, ext, name):
    return any(e.name == ext and name in e.operations for e in members(groups))


# ---- resolvedness trees ------------------------------------------------------------------------------


def walk_type(ty, out, path):
    """Append (path, extension, id, resolved?) for every opaque / definition-backed type at every depth."""
    t = T().tys
    if isinstance(ty, t.ExtType):
        out.append((path, ty.type_def.get_extension().name, ty.type_def.name, True))
        for i, a in enumerate(ty.args):
            walk_arg(a, out, f"{path}/arg{i}")
    elif isinstance(ty, t.Opaque):
        out.append((path, ty.extension, ty.id, False))
        for i, a in enumerate(ty.args):
            walk_arg(a, out, f"{path}/arg{i}")
    elif isinstance(ty, t.Sum):
        for i, r in enumerate(ty.variant_rows):
            for j, x in enumerate(r):
                walk_type(x, out, f"{path}/v{i}.{j}")
    elif isinstance(ty, t.PolyFuncType):
        walk_type(ty.body, out, path + "/body")
    elif isinstance(ty, t.FunctionType):
        for i, x in enumerate(ty.input):
            walk_type(x, out, f"{path}/in{i}")
        for i, x in enumerate(ty.output):
            walk_type(x, out, f"{path}/out{i}")


def walk_arg(a, out, path):
    t = T().tys
    if isinstance(a, t.TypeTypeArg):
        walk_type(a.ty, out, path + "/ty")
    elif isinstance(a, t.SequenceArg):
        for i, x in enumerate(a.elems):
            walk_arg(x, out, f"{path}/e{i}")


def where_of(path):
    """Coarse location class of a path, for violation classes."""
    if "/arg" in path:
        inner = path.split("/arg", 1)[1]
        return "argument-of-opaque-type" if "/" in inner else "argument-of-opaque-type"
    if path.startswith("targ") or "/e" in path:
        return "type-argument"
    if "/v" in path:
        return "inside-sum"
    if "/in" in path or "/out" in path:
        return "inside-function-type"
    return "top-level"


def op_tree(op):
    t = T()
    out = []
    if isinstance(op, t.ops.Custom):
        walk_type(op.signature, out, "sig")
        for i, a in enumerate(op.args):
            walk_arg(a, out, f"targ{i}")
        return ("Custom", op.extension, op.op_name, out)
    if isinstance(op, t.ops.ExtOp):
        sig = op.signature
        if sig is not None:
            walk_type(sig, out, "sig")
        for i, a in enumerate(op.args):
            walk_arg(a, out, f"targ{i}")
        od = op.op_def()
        return ("ExtOp", od.get_extension().name, od.name, out)
    return (type(op).__name__, None, None, out)


def strip_descr(doc):
    d = json.loads(json.dumps(doc))
    for n in d["nodes"]:
        if n.get("op") == "Extension":
            n["description"] = ""
    return d


def sig_obs(h):
    """Signatures, port types and type bounds, in serialised form."""
    t = T()
    out = {}
    for n in h:
        op = h[n].op
        if isinstance(op, t.ops.DataflowOp):
            try:
                sig = op.outer_signature()
            except Exception as e:  # noqa: BLE001
                out[n.idx] = f"raised {type(e).__name__}"
                continue
            ins = [x._to_serial_root().model_dump(mode="json") for x in sig.input]
            outs = [x._to_serial_root().model_dump(mode="json") for x in sig.output]
            bounds = [x.type_bound().value for x in [*sig.input, *sig.output]]
            pts = []
            for i in range(len(sig.output)):
                pt = h.port_type(n.out(i))
                pts.append(None if pt is None else pt._to_serial_root().model_dump(mode="json"))
            out[n.idx] = [ins, outs, bounds, pts, sorted(sig.runtime_reqs)]
    return out


def hugr_leg(ctx):
    from hugr.hugr import Hugr

    ch = ctx.ch
    feats = {"cond": ch.coin(1, 2, "f-cond"), "loop": ch.coin(1, 2, "f-loop"), "cfg": ch.coin(1, 3, "f-cfg"), "calls": True,
             "poly": False, "meta": False, "collections": True, "unregistered": ch.coin(2, 3, "f-unreg")}
    root = "module" if ch.coin(2, 3, "module-root") else None
    try:
        sim = BuilderSim(ctx, root_kind=root, features=feats, max_steps=8 + ch.draw(30, "max-steps"))
        sim.run()
    except Discard as d:
        ctx.discard = str(d)
        return
    stored = sim.hugr.to_json()  # what the store holds; the session below only sees this
    ctx.ev("disk", "store", {"bytes": len(stored)})
    try:
        h = Hugr.load_json(stored)
    except Exception as e:  # noqa: BLE001
        ctx.discard = f"load-raised:{type(e).__name__}"
        return
    is_module = sim.root_kind == "module"
    doc0 = strip_descr(json.loads(h.to_json()))
    model0 = h.to_model() if is_module else None
    sig0 = sig_obs(h)
    # registry chain: increasing knowledge, duplicate deliveries
    order = list(GROUPS)
    chain = []
    known = []
    if ch.coin(1, 2, "start-empty"):
        chain.append([])
    while (order or any(g.endswith("~") for g in known)) and len(chain) < 5:
        k = 1 + ch.draw(2, "add-groups")
        for _ in range(k):
            olds = [g for g in known if g.endswith("~")]
            if olds and (not order or ch.coin(1, 2, "complete-partial")):
                g = olds[ch.draw(len(olds), "which-partial")]
                known[known.index(g)] = g.rstrip("~")  # the extension is upgraded to its full version
            elif order:
                g = order.pop(ch.draw(len(order), "which-group"))
                known.append(g + "~" if ch.coin(1, 3, "arrives-partial") else g)
        chain.append(list(known))
        if any(g.endswith("~") for g in known):
            ctx.probe("registry_with_older_extension_version")
        if ch.coin(1, 3, "stop-partial"):
            break
    ctx.profile = {"leg": "hugr", "root": sim.root_kind, "chain": ["+".join(c) or "empty" for c in chain]}
    for groups in chain:
        reg = registry(groups, ctx)
        deliveries = 1 + ch.draw(3, "deliveries")
        for d in range(deliveries):
            before = {n.idx: (h[n].op, op_tree(h[n].op)) for n in h}
            try:
                h.resolve_extensions(reg)
            except Exception as e:  # noqa: BLE001
                ctx.violate("resolve", f"raised:{type(e).__name__}", {"groups": groups, "error": str(e)[:200]})
                return
            ctx.steps += 1
            ctx.ev("session", "resolve_extensions", {"registry": groups or ["empty"], "delivery": d + 1})
            if d > 0:
                ctx.fault("duplicate_resolve")
            if groups != chain[-1] or "verif.u" not in groups or any(g.endswith("~") for g in groups):
                ctx.fault("partial_registry")
            after = {n.idx: (h[n].op, op_tree(h[n].op)) for n in h}
            ctx.checked("exactly-when")
            for idx, (op_b, tb) in before.items():
                op_a, ta = after[idx]
                if tb[0] == "Custom":
                    should = knows_op(groups, tb[1], tb[2])
                    if should and ta[0] != "ExtOp":
                        ctx.violate("exactly-when", "op-not-resolved", {"node": idx, "op": f"{tb[1]}.{tb[2]}", "registry": groups})
                    elif not should and ta[0] != "Custom":
                        ctx.violate("exactly-when", "op-resolved-without-definition", {"node": idx, "op": f"{tb[1]}.{tb[2]}"})
                    elif not should and op_a is not op_b:
                        ctx.violate("untouched", "unresolvable-op-replaced", {"node": idx})
                    elif not should and ta[3] != tb[3]:
                        # the same object, but its signature / arguments were resolved in place
                        diff = next((x for x, y in zip(ta[3], tb[3]) if x != y), None)
                        ctx.violate("untouched", "unresolvable-op-mutated-in-place", {"node": idx, "op": f"{tb[1]}.{tb[2]}", "first": diff})
                    elif should:
                        ctx.probe("op_resolved")
                        for (path, e, name, res) in ta[3]:
                            was = next((x[3] for x in tb[3] if x[0] == path), None)
                            exp = was or knows_type(groups, e, name)
                            if res != exp:
                                ctx.violate("exactly-when", ("type-not-resolved:" if exp else "type-resolved-without-definition:") + where_of(path),
                                            {"node": idx, "path": path, "type": f"{e}.{name}", "registry": groups})
                            if res and not was:
                                ctx.probe("type_resolved:" + where_of(path))
                elif op_a is not op_b:
                    ctx.violate("untouched", f"non-opaque-op-replaced:{tb[0]}", {"node": idx})
            if d > 0:
                ctx.checked("idempotent")
                if {i: t_[1] for i, t_ in after.items()} != {i: t_[1] for i, t_ in before.items()}:
                    ctx.violate("idempotent", "second-delivery-changed-state", {"registry": groups})
            ctx.checked("wire-invariant")
            try:
                doc = strip_descr(json.loads(h.to_json()))
            except Exception as e:  # noqa: BLE001
                ctx.violate("wire-invariant", f"to_json-raised:{type(e).__name__}", {"error": str(e)[:200]})
                return
            if doc != doc0:
                from ..engines.c_persist import _doc_diff_cls, _first_diff
                ctx.violate("wire-invariant", _doc_diff_cls(doc0, doc), {"registry": groups, "diff": _first_diff(doc0, doc)})
            ctx.checked("sig-invariant")
            s = sig_obs(h)
            if s != sig0:
                bad = next(i for i in s if s[i] != sig0.get(i))
                ctx.violate("sig-invariant", f"signature-or-bound-changed:{type(h[_node(h, bad)].op).__name__}", {"node": bad, "before": sig0.get(bad), "after": s[bad]})
            if is_module:
                ctx.checked("model-invariant")
                try:
                    m = h.to_model()
                    if m != model0:
                        ctx.violate("model-invariant", "exported-model-changed", {"registry": groups, "first": _model_diff(model0, m)})
                except Exception as e:  # noqa: BLE001
                    ctx.violate("model-invariant", f"to_model-raised:{type(e).__name__}", {"error": str(e)[:200]})
            if ctx.violations:
                return
        if "verif.q" in groups and ch.coin(1, 3, "registry-churn"):
            # the registry's owner re-publishes a definition under the same name and moves the superseded object into
            # another extension: a HUGR resolved earlier keeps saying what it said (it shares nothing mutable with them)
            from semver import Version
            from hugr import ext as hext
            q = extensions()["verif.q"][0]
            used = sorted({t_[1][2] for t_ in after.values() if t_[1][0] == "ExtOp" and t_[1][1] == "verif.q"})
            if used:
                name = ch.pick(used, "republish")
                old = q.operations[name]
                pf = old.signature.poly_func
                q.add_op_def(hext.OpDef(name, hext.OpDefSig(pf.body if pf is not None else None, binary=pf is None), "re-published"))
                legacy = hext.Extension("verif.legacy", Version(0, 0, 1))
                legacy.add_op_def(old)
                ctx.ev("owner", "re-publish + move superseded definition", name)
                ctx.probe("definition_rehomed_after_resolution")
                ctx.steps += 1
                ctx.checked("wire-invariant")
                doc = strip_descr(json.loads(h.to_json()))
                if doc != doc0:
                    from ..engines.c_persist import _doc_diff_cls, _first_diff
                    ctx.violate("wire-invariant", "changed-by-later-edits-of-the-registry:" + _doc_diff_cls(doc0, doc), {"diff": _first_diff(doc0, doc)})
                    return
                h.resolve_extensions(registry(groups))
                doc = strip_descr(json.loads(h.to_json()))
                if doc != doc0:
                    ctx.violate("idempotent", "resolving-again-after-registry-edits-changed-the-document", {})
                    return
    if chain and not ctx.violations and ch.coin(1, 3, "op-reassigned-after-resolution"):
        # a rewrite puts an opaque operation back on an existing node (`h[n].op = ...`, no node is added) after the HUGR has
        # been resolved, and resolves again: the stored opaque form must be replaced exactly as the first time; a look-alike
        # whose extension field is empty and whose name merely *spells* "<extension>.<op>" names no extension of the
        # registry and stays what it is
        import copy as _copy
        groups = chain[-1]
        h0 = Hugr.load_json(stored)
        cands = [n for n in h0 if op_tree(h0[n].op)[0] == "Custom"]
        if cands:
            n = cands[ch.draw(len(cands), "which-op")]
            orig = h0[n].op
            lookalike = ch.coin(1, 2, "look-alike")
            t_ = T()
            new = t_.ops.Custom(op_name=f"{orig.extension}.{orig.op_name}", signature=_copy.deepcopy(orig.signature),
                                description=orig.description, extension="", args=_copy.deepcopy(orig.args)) if lookalike \
                else _copy.deepcopy(orig)
            h[_node(h, n.idx)].op = new
            tb = op_tree(new)
            ctx.ev("rewrite", "h[n].op = <opaque>", {"node": n.idx, "look_alike": lookalike})
            ctx.probe("opaque_lookalike_assigned" if lookalike else "opaque_op_reassigned_after_resolution")
            ctx.fault("op_reassigned_after_resolution")
            try:
                doc_b = strip_descr(json.loads(h.to_json()))
                h.resolve_extensions(registry(groups, ctx))
                doc_a = strip_descr(json.loads(h.to_json()))
            except Exception as e:  # noqa: BLE001
                ctx.violate("resolve", f"raised:{type(e).__name__}:after-op-reassigned", {"error": str(e)[:200]})
                return
            ctx.steps += 1
            ctx.checked("exactly-when")
            op_a = h[_node(h, n.idx)].op
            ta = op_tree(op_a)
            should = (not lookalike) and knows_op(groups, tb[1], tb[2])
            if should and ta[0] != "ExtOp":
                ctx.violate("exactly-when", "op-not-resolved:reassigned-after-resolution", {"node": n.idx, "op": f"{tb[1]}.{tb[2]}", "registry": groups})
            elif not should and (ta[0] != "Custom" or op_a is not new):
                ctx.violate("exactly-when" if ta[0] != "Custom" else "untouched",
                            "op-resolved-without-definition:" + ("empty-extension-dotted-name" if lookalike else "reassigned"),
                            {"node": n.idx, "op": f"{tb[1]!r}.{tb[2]}", "became": list(ta[:3])})
            ctx.checked("wire-invariant")
            if doc_a != doc_b:
                from ..engines.c_persist import _doc_diff_cls, _first_diff
                ctx.violate("wire-invariant", "after-op-reassigned:" + _doc_diff_cls(doc_b, doc_a), {"diff": _first_diff(doc_b, doc_a)})
            return
    if chain and not ctx.violations and ch.coin(1, 3, "resolve-against-a-smaller-registry"):
        # another component resolves the HUGR once more against what *it* knows - a subset of the last registry: there is
        # nothing new to replace, and what is definition-backed already is not opaque, so nothing changes at all
        groups = [g for g in chain[-1] if ch.coin(1, 2, "keeps")]
        before = {n.idx: op_tree(h[n].op) for n in h}
        try:
            h.resolve_extensions(registry(groups, ctx))
        except Exception as e:  # noqa: BLE001
            ctx.violate("resolve", f"raised:{type(e).__name__}", {"groups": groups, "error": str(e)[:200]})
            return
        ctx.steps += 1
        ctx.ev("session", "resolve_extensions", {"registry": groups or ["empty"], "smaller": True})
        ctx.probe("resolved_against_a_smaller_registry")
        ctx.checked("untouched")
        after = {n.idx: op_tree(h[n].op) for n in h}
        if after != before:
            bad = next(i for i in after if after[i] != before[i])
            ctx.violate("untouched", "changed-by-resolving-against-a-smaller-registry", {"node": bad, "before": before[bad][:3], "after": after[bad][:3], "registry": groups})
        elif strip_descr(json.loads(h.to_json())) != doc0:
            ctx.violate("wire-invariant", "changed-by-resolving-against-a-smaller-registry", {"registry": groups})
        elif sig_obs(h) != sig0:
            ctx.violate("sig-invariant", "changed-by-resolving-against-a-smaller-registry", {"registry": groups})


def _node(h, idx):
    return next(n for n in h if n.idx == idx)


def _model_diff(a, b, path="root"):
    import dataclasses
    if type(a) is not type(b):
        return f"{path}: {type(a).__name__} vs {type(b).__name__}"
    if dataclasses.is_dataclass(a):
        for f in dataclasses.fields(a):
            d = _model_diff(getattr(a, f.name), getattr(b, f.name), f"{path}.{f.name}")
            if d:
                return d
        return None
    if isinstance(a, (list, tuple)):
        if len(a) != len(b):
            return f"{path}: len {len(a)} vs {len(b)}"
        for i, (x, y) in enumerate(zip(a, b)):
            d = _model_diff(x, y, f"{path}[{i}]")
            if d:
                return d
        return None
    return None if a == b else f"{path}: {a!r} vs {b!r}"[:200]


ctx_probe = [lambda name: None]


def gen_texpr(ch, depth=0):
    t = T()
    k = ch.weighted([3, 2, 2, 2, 3 if depth < 3 else 0, 3 if depth < 3 else 0, 2 if depth < 3 else 0, 2 if depth < 3 else 0, 1], "texpr")
    if k == 0:
        return t.int_t(ch.pick([5, 3], "w"))
    if k == 1:
        return t.FLOAT_T
    if k == 2:
        return t.B if ch.coin(1, 2, "b") else t.Q
    if k == 3:
        return t.STRING_T
    if k == 4:
        return t.Array(gen_texpr(ch, depth + 1), 1 + ch.draw(3, "n")) if ch.coin(1, 2, "arr") else t.List(gen_texpr(ch, depth + 1))
    if k == 5 and ch.coin(1, 3, "vt-or-uint"):
        if ch.coin(1, 2, "uint"):
            # the same type id in two extensions, nested under the same outer type
            ctx_probe[0]("same_type_id_in_two_extensions")
            return t.tys.Tuple(t.List(t.int_t(5)), t.List(t.tys.Opaque("int", t.tys.TypeBound.Copyable, [t.tys.BoundedNatArg(5)], "verif.u")))
        ctx_probe[0]("sequence_of_sequences_argument")
        rows = [[gen_texpr(ch, depth + 1) for _ in range(1 + ch.draw(2, "r"))] for _ in range(1 + ch.draw(2, "rs"))]
        return t.tys.Opaque("vt", t.tys.TypeBound.Copyable,
                            [t.tys.SequenceArg([t.tys.SequenceArg([t.tys.TypeTypeArg(x) for x in r]) for r in rows])], "verif.u")
    if k == 5:
        inner = gen_texpr(ch, depth + 1)
        # the written bound is the one the definition computes (FromParams([0])): a consistent document
        return t.tys.Opaque("ut", inner.type_bound(), [t.tys.TypeTypeArg(inner)], "verif.u")
    if k == 6:
        rows = [[gen_texpr(ch, depth + 1) for _ in range(ch.draw(3, "row"))] for _ in range(1 + ch.draw(2, "rows"))]
        if not any(rows) and ch.coin(1, 2, "general-spelling-of-a-unit-sum"):
            ctx_probe[0]("general_form_sum_with_empty_rows")
            return t.tys.Sum(rows)  # the same type as UnitSum(n), written in the general form
        return t.tys.Sum(rows) if any(rows) else t.tys.UnitSum(len(rows))
    if k == 7:
        reqs = [[], ["verif.q"], ["b.ext", "a.ext"]][ch.draw(3, "runtime-reqs")]
        return t.tys.FunctionType([gen_texpr(ch, depth + 1) for _ in range(ch.draw(3, "fin"))], [gen_texpr(ch, depth + 1) for _ in range(ch.draw(2, "fout"))], reqs)
    return t.tys.Variable(0, t.tys.TypeBound.Any)


def type_leg(ctx):
    ch = ctx.ch
    ctx_probe[0] = ctx.probe
    ty0 = gen_texpr(ch)
    if ch.coin(1, 6, "deeply-wrapped"):
        # size class: the opaque types sit many levels below the top, under sums and function types only
        t = T()
        for _ in range(3 + ch.draw(9, "wrap-depth")):
            w = ch.draw(4, "wrap-kind")
            ty0 = [lambda x: t.tys.Tuple(x), lambda x: t.tys.Option(x), lambda x: t.tys.Either([t.B], [x]),
                   lambda x: t.tys.FunctionType([x], [t.B])][w](ty0)
        ctx.probe("opaque_type_under_many_sums")
    tmp = []
    walk_type(ty0, tmp, "t")
    if not tmp:
        ty0 = T().tys.Tuple(ty0, T().int_t(5))
    from hugr._serialization.tys import PolyFuncType as SPoly
    from hugr._serialization.tys import Type as SType
    poly = ch.coin(1, 6, "polymorphic-function-type")
    if poly:
        # the expression resolved is the polymorphic signature of a declaration (with its extension requirements)
        t = T()
        reqs = [["verif.q"], ["b.ext", "a.ext"], []][ch.draw(3, "runtime-reqs")]
        ty0 = t.tys.PolyFuncType([t.tys.TypeTypeParam(t.tys.TypeBound.Any)],
                                 t.tys.FunctionType([ty0, t.tys.Variable(0, t.tys.TypeBound.Any)], [ty0], reqs))
        ctx.probe("polymorphic_function_type_resolved")
    ser_of = (lambda x: x._to_serial()) if poly else (lambda x: x._to_serial_root())
    ser = ser_of(ty0)
    stored = ser.model_dump_json()
    ty = (SPoly if poly else SType).model_validate_json(stored).deserialize()  # fully opaque expression, as read from a document
    ctx.ev("disk", "store-type", {"bytes": len(stored)})
    tree0 = []
    walk_type(ty, tree0, "t")
    if not tree0:
        ctx.discard = "no-opaque-type"
        return
    doc0 = json.loads(stored)
    bound0 = ty.type_bound().value
    try:
        model0 = ty.to_model()
    except Exception:  # noqa: BLE001
        model0 = None
    if ch.coin(1, 12, "resolve-fails-first"):
        # fault, then workload: the first attempt to resolve runs out of stack (a deep expression, a shallow limit) and the
        # caller retries with more room; the retry must resolve everything the registry knows
        import sys
        t = T()
        tower = t.int_t(5)
        for _ in range(22):
            tower = t.tys.Tuple(t.List(tower))
        stored_t = tower._to_serial_root().model_dump_json()
        deep = SType.model_validate_json(stored_t).deserialize()
        reg_all = registry(list(GROUPS))
        lim = sys.getrecursionlimit()
        try:
            sys.setrecursionlimit(len(__import__("inspect").stack()) + 60)
            try:
                deep.resolve(reg_all)
                ctx.probe("deep_resolve_succeeded_at_low_limit")
            except RecursionError:
                ctx.fault("resolve_ran_out_of_stack")
        finally:
            sys.setrecursionlimit(max(lim, 5000))
        ctx.steps += 1
        res = deep.resolve(reg_all)
        tr = []
        walk_type(res, tr, "t")
        ctx.checked("exactly-when")
        bad = [x for x in tr if not x[3]]
        if bad:
            ctx.violate("exactly-when", "type-not-resolved:after-a-failed-resolve", {"unresolved": len(bad), "of": len(tr)})
        sys.setrecursionlimit(lim)
        return
    known = []
    order = list(GROUPS)
    ctx.profile = {"leg": "type", "opaque_nodes": len(tree0)}
    ever = set()
    for _ in range(1 + ch.draw(4, "n-steps")):
        olds = [g for g in known if g.endswith("~")]
        if olds and ch.coin(1, 3, "complete-partial"):
            g = olds[ch.draw(len(olds), "which-partial")]
            known[known.index(g)] = g.rstrip("~")
        elif order and ch.coin(2, 3, "learn"):
            g = order.pop(ch.draw(len(order), "which-group"))
            known.append(g + "~" if ch.coin(1, 3, "arrives-partial") else g)
        groups = list(known)
        if known and ch.coin(1, 5, "resolve-against-a-smaller-registry"):
            # another component resolves the same expression against what *it* knows (less): what is already
            # definition-backed stays so (it is not opaque any more), the rest is judged against this registry
            groups = [g for g in known if ch.coin(1, 2, "keeps")]
            ctx.probe("resolved_against_a_smaller_registry")
        if any(g.endswith("~") for g in groups):
            ctx.probe("registry_with_older_extension_version")
        reg = registry(groups, ctx)
        for d in range(1 + ch.draw(2, "deliveries")):
            try:
                ty2 = ty.resolve(reg)
            except Exception as e:  # noqa: BLE001
                ctx.violate("resolve", f"type-resolve-raised:{type(e).__name__}", {"error": str(e)[:200]})
                return
            ctx.steps += 1
            ctx.ev("session", "type.resolve", {"registry": groups or ["empty"], "delivery": d + 1})
            if d > 0:
                ctx.fault("duplicate_resolve")
            before, after = [], []
            walk_type(ty, before, "t")
            walk_type(ty2, after, "t")
            ctx.checked("exactly-when")
            if [x[:3] for x in before] != [x[:3] for x in after]:
                ctx.violate("exactly-when", "type-structure-changed", {"before": before[:5], "after": after[:5]})
                return
            for (path, e, name, was), (_, _, _, now) in zip(before, after):
                exp = was or knows_type(groups, e, name)
                if now != exp:
                    ctx.violate("exactly-when", ("type-not-resolved:" if exp else "type-resolved-without-definition:") + where_of(path),
                                {"path": path, "type": f"{e}.{name}", "registry": groups, "already_resolved_ancestor": any(
                                    b[3] and path.startswith(b[0] + "/") for b in before)})
                if now and not was:
                    ctx.probe("type_resolved:" + where_of(path))
            ctx.checked("wire-invariant")
            if json.loads(ser_of(ty2).model_dump_json()) != doc0:
                ctx.violate("wire-invariant", "type-document-changed", {"registry": groups})
            if ty2.type_bound().value != bound0:
                ctx.violate("sig-invariant", "type-bound-changed", {"before": bound0, "after": ty2.type_bound().value})
            if model0 is not None:
                ctx.checked("model-invariant")
                try:
                    if ty2.to_model() != model0:
                        ctx.violate("model-invariant", "type-model-changed", {"first": _model_diff(model0, ty2.to_model())})
                except Exception as e:  # noqa: BLE001
                    ctx.violate("model-invariant", f"to_model-raised:{type(e).__name__}", {})
            ty = ty2
            if ctx.violations:
                return


def run(ctx):
    fresh_extensions()
    if ctx.ch.weighted([3, 2], "leg") == 0:
        hugr_leg(ctx)
    else:
        type_leg(ctx)
