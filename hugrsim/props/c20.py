"""C20 — rendering draws every node, port and link exactly once (engine B products, all configs)."""

from __future__ import annotations

import json
from collections import Counter

from ..engines.b_builders import BuilderSim, Discard
from ..oracles import dot, iso
from ..oracles import refsem as R

PROP = "C20"
NONTRIVIAL_STEPS = 3


def check_render(ctx, h, doc, cfg_desc, config):
    from hugr.ops import AsExtOp
    from hugr.tys import ValueKind

    V = ctx.violate
    ctx.checked("render")
    before = iso.observe(h)
    try:
        src = h.render_dot(config).source
    except Exception as e:  # noqa: BLE001
        import traceback
        tb = traceback.extract_tb(e.__traceback__)[-1]
        V("render", f"raised:{type(e).__name__}:{tb.name}", {"config": cfg_desc, "error": str(e)[:200]})
        return None
    ctx.checked("mutated")
    if not iso.same_obs(before, iso.observe(h)):
        V("mutated", "hugr-changed-by-render", {"config": cfg_desc})
    # graphviz itself must accept the source (sampled: the layout binary costs ~40 ms)
    if ctx.cfg.get("tier") == "thorough" or ctx.ch.coin(1, 3, "run-dot"):
        import shutil
        import subprocess
        exe = shutil.which("dot")
        if exe is None:
            ctx.probe("dot_binary_missing")
        else:
            ctx.checked("dot-accepts")
            ctx.probe("dot_binary_run")
            p = subprocess.run([exe, "-Tcanon"], input=src.encode("utf-8"), capture_output=True, timeout=120)
            if p.returncode != 0:
                err = p.stderr.decode("utf-8", "replace")
                first = next((ln for ln in err.splitlines() if ln.startswith("Error")), err[:80])
                kind = "html-label" if ("label of node" in err or "syntax error" in first) else "other"
                errs = [ln for ln in err.splitlines() if not ln.startswith("Warning")]
                source_fault = any(m in err for m in ("syntax error", "not well-formed", "mismatched tag", "in label of node",
                                                      "Unknown HTML element", "Illegal", "invalid token", "No or improper"))
                if source_fault:
                    V("dot-accepts", f"graphviz-rejects-source:{kind}", {"config": cfg_desc, "rc": p.returncode, "non_warning_stderr": errs[:6],
                                                                           "stderr_tail": err[-200:], "source_bytes": len(src)})
                    return None
                # e.g. "Error: lost 0 2 edge": a failure of graphviz' own layout on a source it parsed; not the renderer's
                ctx.probe("graphviz_layout_error_on_valid_source")
    try:
        g = dot.parse(src)
    except dot.DotError as e:
        V("render", "unparseable-dot", {"error": str(e)[:200]})
        return None
    live = [n for n in h]
    # position of each node in the document (hierarchy walk when index order is not hierarchy-consistent)
    from ..engines.c_persist import correspondence
    mem_nodes = [{"idx": n.idx, "parent": h[n].parent.idx if h[n].parent is not None else None,
                  "children": [c.idx for c in h.children(n)]} for n in live]
    doc_children = {}
    for i, o in enumerate(doc["nodes"]):
        if i != 0:
            doc_children.setdefault(o["parent"], []).append(i)
    rank = correspondence(ctx, mem_nodes, doc_children, 0, "render")
    if rank is None:
        return g
    # nodes
    ctx.checked("node")
    if sorted(g["nodes"]) != sorted(n.idx for n in live):
        V("node", "node-statements", {"missing": sorted(set(n.idx for n in live) - set(g["nodes"])),
                                      "extra": sorted(set(g["nodes"]) - set(n.idx for n in live))})
        return g
    qualify = config.qualify_op_name if config is not None else False
    for n in live:
        gn = g["nodes"][n.idx]
        op = h[n].op
        if gn["count"] != 1:
            V("node", "node-statement-repeated", {"node": n.idx, "count": gn["count"]})
        want = op.op_def().name if (isinstance(op, AsExtOp) and not qualify) else op.name()
        if gn["name"] != want:
            V("node", "display-name", {"node": n.idx, "got": gn["name"], "expected": want})
        # clusters nested exactly as the hierarchy
        path = []
        x = n if h.children(n) else h[n].parent
        while x is not None:
            path.append(f"cluster{x.idx}")
            x = h[x].parent
        path.reverse()
        if gn["cluster_path"] != path:
            V("cluster", "nesting", {"node": n.idx, "got": gn["cluster_path"], "expected": path})
        # cells
        sem = R.op_sem(doc["nodes"][rank[n.idx]])
        for d, cells, used, cap in (("in", gn["in_cells"], [b.offset for _, bs in [(0, 0)] for b in []], 0),):
            pass
        used_in = [q.offset for a, q in h.links() if q.node.idx == n.idx and q.offset >= 0]
        used_out = [a.offset for a, q in h.links() if a.node.idx == n.idx and a.offset >= 0]
        cap_in = R.n_in(sem) - (1 if sem["oin"][0] == "order" else 0)
        cap_out = R.n_out(sem) - (1 if sem["oout"][0] == "order" else 0)
        for d, cells, used, cap in (("in", gn["in_cells"], used_in, cap_in), ("out", gn["out_cells"], used_out, cap_out)):
            if cells != list(range(len(cells))):
                V("cells", f"{d}-cells-not-0..k-1", {"node": n.idx, "cells": cells})
            elif used and len(cells) < max(used) + 1:
                V("cells", f"{d}-cell-missing-for-linked-port", {"node": n.idx, "cells": len(cells), "max_used": max(used)})
            elif len(cells) > max(cap, max(used) + 1 if used else 0):
                V("cells", f"{d}-more-cells-than-ports", {"node": n.idx, "op": doc["nodes"][rank[n.idx]].get("op"), "cells": len(cells), "ports": cap})
    have_clusters = {f"cluster{n.idx}" for n in live if h.children(n)}
    if set(g["clusters"]) != have_clusters:
        V("cluster", "cluster-set", {"missing": sorted(have_clusters - set(g["clusters"])), "extra": sorted(set(g["clusters"]) - have_clusters)})
    # edges
    ctx.checked("edge")
    want = Counter((a.node.idx, a.offset, b.node.idx, b.offset) for a, b in h.links())
    got = Counter((e[0], e[2], e[3], e[5]) for e in g["edges"])
    if any(e[1] != "out" or e[4] != "in" for e in g["edges"]):
        V("edge", "endpoint-direction", {})
    if got != want:
        missing, extra = want - got, got - want
        order = any(l[1] == -1 for l in list(missing) + list(extra))
        V("edge", "order-edges" if order else "edges", {"missing": sorted(missing.elements())[:5], "extra": sorted(map(str, extra.elements()))[:5]})
    else:
        labels = {}
        for e in g["edges"]:
            labels.setdefault((e[0], e[2], e[3], e[5]), []).append(e[6].get("label", ""))
        for a, b in h.links():
            kind = h.port_kind(a)
            exp = str(kind.ty) if isinstance(kind, ValueKind) else ""
            if exp not in labels[(a.node.idx, a.offset, b.node.idx, b.offset)]:
                V("edge", "value-edge-label", {"edge": [a.node.idx, a.offset, b.node.idx, b.offset],
                                               "got": labels[(a.node.idx, a.offset, b.node.idx, b.offset)], "expected": exp})
    return g


def structure(g):
    """What must be independent of the render configuration."""
    return ({i: (n["cluster_path"], n["in_cells"], n["out_cells"]) for i, n in g["nodes"].items()}, sorted(g["clusters"].items(), key=str),
            sorted((e[0], e[2], e[3], e[5], e[6].get("label", "")) for e in g["edges"]))


def run(ctx):
    from hugr.hugr.render import PALETTE, RenderConfig

    ch = ctx.ch
    if ch.coin(1, 4, "mutated-workload"):
        # "any HUGR with complete operations": also HUGRs whose indices carry a history (deletion, index reuse:
        # a container can then have a lower index than its parent)
        from ..engines import c_persist
        ctx.profile = {}
        # (no stray links: the store's port counts are high-water marks by design, and whether a port that carried a link
        #  once and is beyond the operation's signature deserves a cell is not for this property to say)
        prod = c_persist.produce(ctx, weights=(0, 1, 2), force_in_range=True, stray_links=False)
        if prod is None:
            return
        h, _in_range, label = prod
        ctx.probe("rendered_hugr_with_mutation_history")
        doc = json.loads(h.to_json())
        g0 = check_render(ctx, h, doc, "default", None)
        return
    feats = {"cond": ch.coin(3, 4, "f-cond"), "loop": ch.coin(3, 4, "f-loop"), "cfg": ch.coin(3, 4, "f-cfg"),
             "calls": True, "poly": ch.coin(1, 2, "f-poly"), "meta": ch.coin(3, 4, "f-meta"), "insert": ch.coin(1, 3, "f-insert"),
             "odd_names": ch.coin(1, 3, "f-odd-names"), "second_ext": ch.coin(1, 3, "f-second-ext")}
    try:
        sim = BuilderSim(ctx, features=feats, max_steps=10 + ch.draw(45, "max-steps"))
        ctx.profile = {"root": sim.root_kind, **feats}

        live = None
        live_failed = [0]
        if ch.coin(1, 2, "long-lived-renderer"):
            # a client keeps one renderer object for all its previews, also the ones that fail
            from hugr.hugr.render import DotRenderer
            live = DotRenderer()

        def render_now(hugr):
            if live is None:
                return hugr.render_dot()
            try:
                return live.render(hugr)
            except Exception:
                live_failed[0] += 1
                raise

        def failing_preview():
            """Another HUGR of the same client, still under construction in a way that makes rendering fail while the
            links are drawn (an open nested graph whose result is already wired up): caught, and the renderer lives on."""
            from hugr import tys
            from hugr.build.dfg import Dfg
            from hugr.std.logic import Not
            d = Dfg(*[tys.Bool] * (1 + ch.draw(3, "preview-width")))
            ws = list(d.inputs())
            for _ in range(ch.draw(4, "preview-ops")):
                ws.append(d.add_op(Not, ws[ch.draw(len(ws), "preview-arg")])[0])
            inner = d.add_nested(*ws[:2])
            d.hugr.add_link(inner.parent_node.out(0), d.output_node.inp(0))
            try:
                live.render(d.hugr)
                ctx.probe("preview_of_unfinished_hugr_rendered")
            except Exception:  # noqa: BLE001
                live_failed[0] += 1
                ctx.fault("rendering_of_incomplete_hugr_failed")

        def mid_render(sim):
            from ..engines.b_builders import Actor, ModuleCtl
            if live is not None and ch.coin(1, 12, "failing-preview-of-another-hugr"):
                failing_preview()
            if any((isinstance(a, Actor) and not a.closed) or (not isinstance(a, (Actor, ModuleCtl)) and not a.closed) for a in sim.actors):
                if ch.coin(1, 10, "render-incomplete"):
                    try:
                        render_now(sim.hugr)
                        ctx.probe("rendered_incomplete_hugr")
                    except Exception:  # noqa: BLE001
                        ctx.fault("rendering_of_incomplete_hugr_failed")
                return
            if len(sim.hugr) > 3 and ch.coin(1, 6, "mid-history-render"):
                try:
                    render_now(sim.hugr)
                    ctx.probe("rendered_mid_history")
                    ctx.ev("query", "render_dot")
                except Exception:  # noqa: BLE001  judged at the end
                    pass
        sim.after_step = mid_render
        sim.run()
    except Discard as d:
        ctx.discard = str(d)
        return
    h = sim.hugr
    if ch.coin(1, 3, "root-name"):
        # the renderer uses the root's "name" metadata as the graph title
        h[h.root].metadata["name"] = ch.pick(["m", "my module", "né"], "name")
        ctx.probe("root_name_metadata")
    doc = json.loads(h.to_json())
    if any(l[0].offset == -1 for l in h.links()):
        ctx.probe("order_edges_rendered")
    g0 = check_render(ctx, h, doc, "default", None)
    if g0 is None or ctx.violations:
        return
    if live is not None:
        ctx.checked("renderer-reuse")
        ctx.probe("long_lived_renderer_after_failed_preview" if live_failed[0] else "long_lived_renderer")
        try:
            s_live = live.render(h).source
        except Exception as e:  # noqa: BLE001
            s_live = f"raised {type(e).__name__}"
        if s_live != h.render_dot().source:
            ctx.violate("config", "renderer-object-carries-state-" + ("after-a-failed-render" if live_failed[0] else "between-renders"), {})
            return
    pal = ch.pick(sorted(PALETTE), "palette")
    q = ch.coin(1, 2, "qualify")
    g1 = check_render(ctx, h, doc, f"{pal},qualify={q}", RenderConfig(PALETTE[pal], q))
    if g1 is None or ctx.violations:
        return
    if ch.coin(1, 3, "render-default-again"):
        # rendering is a pure query: the default rendering after another configuration is the same as before
        ctx.checked("config-independent")
        if h.render_dot().source != h.render_dot(None).source or structure(dot.parse(h.render_dot().source)) != structure(g0):
            ctx.violate("config", "default-rendering-changed-after-other-config", {"config": f"{pal},qualify={q}"})
    ctx.checked("config-independent")
    if structure(g0) != structure(g1):
        ctx.violate("config", "structure-depends-on-config", {"config": f"{pal},qualify={q}"})
    for i in g0["nodes"]:
        a, b = g0["nodes"][i]["name"], g1["nodes"][i]["name"]
        if a != b and not (q and b is not None and a is not None and b.split("<")[0].endswith("." + a.split("<")[0])):
            ctx.violate("config", "name-differs-beyond-extension-prefix", {"node": i, "default": a, "config": b})
    if ch.coin(1, 4, "one-renderer-two-hugrs"):
        # one renderer object used for two HUGRs in turn: nothing of one rendering may show in the next
        from hugr import tys
        from hugr.build.dfg import Dfg
        from hugr.hugr.render import DotRenderer
        from hugr.std.logic import Not
        other = Dfg(tys.Bool)
        other.set_outputs(other.add_op(Not, other.inputs()[0]))
        rr = DotRenderer(RenderConfig(PALETTE[pal], q))
        ctx.checked("renderer-reuse")
        s_a = rr.render(h).source
        s_b = rr.render(other.hugr).source
        s_a2 = rr.render(h).source
        ctx.probe("one_renderer_two_hugrs")
        if s_a != s_a2 or structure(dot.parse(s_a)) != structure(g1):
            ctx.violate("config", "renderer-object-carries-state-between-hugrs", {})
        elif len(dot.parse(s_b)["nodes"]) != len(other.hugr):
            ctx.violate("node", "second-hugr-of-a-reused-renderer", {"nodes": len(dot.parse(s_b)["nodes"]), "expected": len(other.hugr)})
    if ch.coin(1, 3, "edit-in-place-then-render"):
        # render, change an operation / metadata in place (as resolve_extensions or a client would), render again
        from hugr import ops as hops
        leaves = [n for n in h if isinstance(h[n].op, hops.Custom) and not h.children(n)]
        if leaves:
            n = ch.pick(leaves, "which-leaf")
            old = h[n].op
            h[n].op = hops.Custom("Renamed" + old.op_name, old.signature, old.description, old.extension, old.args)
            h[n].metadata["edited"] = "yes"
            ctx.probe("op_replaced_in_place_between_renders")
            ctx.ev("client", "h[n].op = ...; metadata edit", n.idx)
            doc = json.loads(h.to_json())
            g2 = check_render(ctx, h, doc, "default-after-in-place-edit", None)
            if g2 is None or ctx.violations:
                return
