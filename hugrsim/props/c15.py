"""C15 — tracked (index-based) wiring == explicit wiring: lock-step refinement.

The same seeded step sequence drives a TrackedDfg and a plain Dfg; a small index model
(list of "most recent wire stored at that index", None once untracked) translates integer
arguments for the plain builder.
"""

from __future__ import annotations

from collections import Counter

PROP = "C15"
NONTRIVIAL_STEPS = 3

_OPS = None


def opset():
    global _OPS
    if _OPS is None:
        from hugr import ops, tys
        from hugr.std.logic import Not

        Q, B = tys.Qubit, tys.Bool
        F = tys.FunctionType

        def cust(name, i, o):
            return lambda: ops.Custom(name, F(i, o), extension="verif.q")

        _OPS = [
            ("H", cust("H", [Q], [Q]), ["Q"], ["Q"]),
            ("CX", cust("CX", [Q, Q], [Q, Q]), ["Q", "Q"], ["Q", "Q"]),
            ("Measure", cust("Measure", [Q], [Q, B]), ["Q"], ["Q", "B"]),
            ("Not", lambda: Not, ["B"], ["B"]),
            ("Noop", lambda: ops.Noop(), ["*"], ["*"]),
            ("CNotB", cust("CNotB", [B, Q], [B, Q]), ["B", "Q"], ["B", "Q"]),
            ("Swap", cust("SwapQB", [Q, B], [B, Q]), ["Q", "B"], ["B", "Q"]),
            ("Toffoli", cust("CCX", [Q, Q, Q], [Q, Q, Q]), ["Q", "Q", "Q"], ["Q", "Q", "Q"]),
            ("Wide9", cust("Wide9", [Q] * 5 + [B] * 4, [B] * 4 + [Q] * 5), ["Q"] * 5 + ["B"] * 4, ["B"] * 4 + ["Q"] * 5),
            ("Fan", cust("Fan", [B], [B] * 10), ["B"], ["B"] * 10),
        ]
    return _OPS


def wkey(w):
    p = w.out_port()
    return (p.node.idx, p.offset)


def hugr_obs(h):
    nodes = []
    for n in h:
        d = h[n]
        nodes.append((n.idx, repr(d.op), d.parent.idx if d.parent else None, [c.idx for c in h.children(n)],
                      repr(sorted(d.metadata.items()))))
    links = Counter((a.node.idx, a.offset, b.node.idx, b.offset) for a, b in h.links())
    return nodes, links


def run(ctx):
    from hugr import tys
    from hugr.build.dfg import Dfg
    from hugr.build.tracked_dfg import TrackedDfg

    ch = ctx.ch
    Q, B = tys.Qubit, tys.Bool
    large = ch.coin(1, 25, "size-class-large")
    n_in = ch.draw(5, "n-inputs") + (6 + ch.draw(10, "n-inputs-large") if large else 0)
    in_kinds = [ch.pick(["Q", "B"], "in-type") for _ in range(n_in)]
    in_tys = [Q if k == "Q" else B for k in in_kinds]
    track_inputs = ch.coin(1, 2, "track-inputs-ctor")
    use_meta = ch.coin(1, 2, "p-meta")
    ctx.profile = {"inputs": "".join(in_kinds), "track_inputs": track_inputs, "meta": use_meta, "large": large}
    t = TrackedDfg(*in_tys, track_inputs=track_inputs)
    p = Dfg(*in_tys)
    ctx.ev(0, "TrackedDfg", {"inputs": in_kinds, "track_inputs": track_inputs})
    # index model: list of (wire-key, kind) or None
    model: list = [(wkey(w), k) for w, k in zip(p.inputs(), in_kinds)] if track_inputs else []
    # wires known to the plain builder: key -> (wire, kind)
    wires = {wkey(w): (w, k) for w, k in zip(p.inputs(), in_kinds)}
    twires = {wkey(w): w for w in t.inputs()}

    def check_tracked(op):
        ctx.checked("tracked")
        got = [None if w is None else wkey(w) for w in t.tracked]
        exp = [None if e is None else e[0] for e in model]
        if got != exp:
            i = next((j for j in range(max(len(got), len(exp))) if (got[j] if j < len(got) else "-") != (exp[j] if j < len(exp) else "-")), 0)
            ctx.violate("tracked", f"index-model:after-{op}", {"got": got, "expected": exp, "first_diff": i}, stop=True)

    def check_hugrs(op):
        ctx.checked("hugr")
        tn, tl = hugr_obs(t.hugr)
        pn, pl = hugr_obs(p.hugr)
        if tn != pn:
            diff = next(((a, b) for a, b in zip(tn, pn) if a != b), (len(tn), len(pn)))
            meta_only = isinstance(diff[0], tuple) and diff[0][:4] == diff[1][:4]
            ctx.violate("metadata" if meta_only else "hugr", ("not-forwarded" if meta_only else "nodes-differ") + f":after-{op}",
                        {"tracked": repr(diff[0]), "plain": repr(diff[1])}, stop=True)
        if tl != pl:
            ctx.violate("hugr", f"links-differ:after-{op}", {"only_tracked": sorted((tl - pl).elements()),
                                                             "only_plain": sorted((pl - tl).elements())}, stop=True)

    def pick_arg(kind, allow_bad):
        """Returns ('int', idx) or ('wire', key) of the wanted kind, or None."""
        cands_i = [i for i, e in enumerate(model) if e is not None and (kind == "*" or e[1] == kind)]
        cands_w = [k for k, (w, kk) in sorted(wires.items()) if kind == "*" or kk == kind]
        if allow_bad and ch.coin(1, 40, "bad-index"):
            bad = [i for i, e in enumerate(model) if e is None] + [len(model), len(model) + 1]
            return ("int", ch.pick(bad, "bad-idx"))
        opts = []
        if cands_i:
            opts.append("int")
        if cands_w:
            opts.append("wire")
        if not opts:
            return None
        k = ch.pick(opts, "argkind") if len(opts) > 1 and ch.coin(1, 3, "use-wire") else opts[0]
        if k == "int":
            return ("int", ch.pick(cands_i, "arg-idx"))
        return ("wire", ch.pick(cands_w, "arg-wire"))

    def do_cmd(n_cmds):
        """Build n_cmds commands; apply via add (n=1) or extend."""
        from hugr.ops import Command

        results = []
        for _ in range(n_cmds):
            name, mk, ins, outs = ch.pick(opset(), "op")
            args = []
            for k in ins:
                a = pick_arg(k, True)
                if a is None:
                    break
                args.append(a)
            if len(args) != len(ins):
                continue
            results.append((name, mk, ins, outs, args))
        return results

    nsteps = 2 + ch.draw(25, "nsteps") + (30 + ch.draw(50, "nsteps-large") if large else 0)
    if large:
        ctx.probe("large_circuit")
    closed = False
    made_cmds: list = []
    for _ in range(nsteps):
        k = ch.weighted([8, 3, 2, 1, 2, 2, 0 if large else 1, 1 if use_meta else 0], "step")
        ctx.steps += 1
        if ch.coin(1, 60, "fork-the-builder"):
            # the client forks the circuit under construction (copy.deepcopy) and goes on with the copy; wires are values
            # (node index, offset), so the ones it holds denote the same wires in the copy
            import copy
            t = copy.deepcopy(t)
            p = copy.deepcopy(p)
            ctx.ev(0, "fork (deepcopy), continue on the copy")
            ctx.probe("continued_on_a_deep_copy")
            check_tracked("fork")
            check_hugrs("fork")
        if ch.coin(1, 25, "unwirable-explicit-wire"):
            # fault, then workload: a command that mixes a tracked index with an explicit wire the builder cannot connect (its
            # source lies inside a nested graph).  Both builders refuse it the same way; the caller catches the error and
            # goes on: every index still denotes the wire it denoted before, exactly as the plain builder's caller still
            # holds its old wires.
            qi = [i for i, e in enumerate(model) if e is not None and e[1] == "Q"]
            if qi:
                from hugr import val as _val
                from hugr.ops import Command as _Cmd
                i = ch.pick(qi, "fault-idx")
                inner_wires = []
                for b in (t, p):
                    inner = b.add_nested()
                    c = inner.load(_val.TRUE)
                    inner.set_outputs()
                    inner_wires.append(c[0])
                mk = next(o[1] for o in opset() if o[0] == "Swap")
                outcomes = []
                for which in ("tracked", "plain"):
                    try:
                        if which == "tracked":
                            t.add(_Cmd(mk(), [i, inner_wires[0]]))
                        else:
                            p.add_op(mk(), wires[model[i][0]][0], inner_wires[1])
                        outcomes.append("returned")
                    except Exception as e:  # noqa: BLE001
                        outcomes.append(type(e).__name__)
                ctx.ev(0, "add(Swap(index, wire from inside a nested graph))", i, outcomes)
                ctx.fault("unwirable_explicit_wire_then_continue")
                ctx.checked("refused-alike")
                if outcomes[0] != outcomes[1]:
                    ctx.violate("hugr", "refusal-differs-from-plain-builder", {"tracked": outcomes[0], "plain": outcomes[1]}, stop=True)
                check_tracked("refused-add(unwirable wire)")
                check_hugrs("refused-add(unwirable wire)")
                continue
        if k == 7:
            # a client annotates one node after the fact, the same way in both HUGRs: it shows on that node only
            from hugr.hugr.node_port import Node as _N
            idxs = [n.idx for n in p.hugr]
            i = ch.pick(idxs, "annotate-node")
            val = len(ctx.events)
            t.hugr[_N(i)].metadata["note"] = val
            p.hugr[_N(i)].metadata["note"] = val
            ctx.ev(0, "annotate", i, val)
            ctx.probe("annotated_after_the_fact")
            check_hugrs("annotate")
            continue
        if k in (0, 1):  # add / extend
            cmds = do_cmd(1 if k == 0 else 1 + ch.draw(3, "n-cmds") + (ch.draw(6, "n-cmds-large") if large else 0))
            reuse_hit = None
            if made_cmds and ch.coin(1, 4, "reuse-command-object"):
                # a Command is a value: the same object may be added again later, when its indices denote other wires
                spec, obj = ch.pick(made_cmds, "which-command")
                # (not Noop: an operation whose type is filled in at its first use is not a value to use twice)
                ok = "*" not in spec[2] and all((0 <= a[1] < len(model) and model[a[1]] is not None and (kk == "*" or model[a[1]][1] == kk)) if a[0] == "int"
                         else a[1] in wires for a, kk in zip(spec[4], spec[2]))
                if ok:
                    cmds, reuse_hit, k = [spec], obj, 0
                    ctx.probe("command_object_added_again")
            if not cmds:
                ctx.ev(0, "noop")
                continue
            via_extend = k == 1
            md = {"m": len(ctx.events)} if (use_meta and not via_extend and ch.coin(1, 2, "meta")) else None
            from hugr.ops import Command

            expect_err = False
            tcmds, plan = [], []
            # simulate sequentially on the model to know what the plain builder must do
            sim_model = list(model)
            for name, mk, ins, outs, args in cmds:
                targs, pargs = [], []
                for a in args:
                    if a[0] == "int":
                        targs.append(a[1])
                        e = sim_model[a[1]] if 0 <= a[1] < len(sim_model) else None
                        if e is None:
                            expect_err = True
                            pargs.append(None)
                        else:
                            pargs.append(e[0])
                    else:
                        targs.append(twires[a[1]])
                        pargs.append(a[1])
                tcmds.append((name, mk, targs))
                plan.append((name, mk, ins, outs, args, pargs))
                if expect_err:
                    break
                # placeholder rebind: real keys known only after the node exists; record positions
                for pos, a in enumerate(args):
                    if a[0] == "int":
                        sim_model[a[1]] = (("pending", len(plan) - 1, pos), outs[pos] if ins[pos] != "*" else sim_model[a[1]][1])
            ctx.ev(0, "extend" if via_extend else "add",
                   [[n, [x if isinstance(x, int) else list(wkey(x)) for x in ta]] for n, _, ta in tcmds],
                   "expect-IndexError" if expect_err else None)
            err = None
            try:
                tc = [Command(mk(), ta) for _, mk, ta in tcmds]
                if reuse_hit is not None:
                    tc = [reuse_hit]
                elif len(tc) == 1 and not expect_err:
                    made_cmds.append((cmds[0], tc[0]))
                if via_extend:
                    tnodes = t.extend(*tc)
                else:
                    tnodes = [t.add(tc[0], metadata=md)] if md is not None else [t.add(tc[0])]
            except IndexError:
                err = "IndexError"
            except Exception as e:  # noqa: BLE001
                err = type(e).__name__
            ctx.checked("indexerror")
            if expect_err:
                ctx.probe("untracked_index_used")
                ctx.fault("untracked_index_then_continue")
                if err != "IndexError":
                    ctx.violate("indexerror", f"untracked-index-accepted:{'extend' if via_extend else 'add'}:{err}",
                                {"model": [None if e is None else e[0] for e in model]}, stop=True)
                # the refused command changes nothing; the commands of the same extend() that came before it were
                # applied.  The caller catches the error and goes on: apply those to the plain builder and continue.
                plan = plan[:-1]
                tnodes = None
            elif err is not None:
                ctx.violate("indexerror" if err == "IndexError" else "no-crash",
                            f"valid-command-raised:{err}", {"cmds": [c[0] for c in tcmds]}, stop=True)
            # plain builder: explicit wires
            for ci, (name, mk, ins, outs, args, pargs) in enumerate(plan):
                pw = []
                for pk in pargs:
                    if isinstance(pk, tuple) and pk and pk[0] == "pending":
                        raise AssertionError("pending key leaked")
                    pw.append(wires[pk][0])
                pn = p.add_op(mk(), *pw, metadata=md) if md is not None else p.add_op(mk(), *pw)
                from hugr.hugr.node_port import Node as _Node
                tn = tnodes[ci] if tnodes is not None else _Node(pn.idx)  # lock-step: same indices in both builders
                # new wires
                for j, ok in enumerate(outs):
                    kind = ok if ok != "*" else wires[pargs[0]][1]
                    wires[(pn.idx, j)] = (pn.out(j), kind)
                    twires[(tn.idx, j)] = tn.out(j)
                # rebind model
                for pos, a in enumerate(args):
                    if a[0] == "int":
                        kind = outs[pos] if outs[pos] != "*" else model[a[1]][1]
                        model[a[1]] = ((pn.idx, pos), kind)
                        ctx.probe("rebind")
                # later commands of the same extend refer to the updated model: recompute their pargs
                for later in plan[ci + 1:]:
                    for pos, a in enumerate(later[4]):
                        if a[0] == "int":
                            later[5][pos] = model[a[1]][0]
            if len({a[1] for c in plan for a in c[4] if a[0] == "int"}) < len([a for c in plan for a in c[4] if a[0] == "int"]):
                ctx.probe("index_used_twice_in_step")
            check_tracked("extend" if via_extend else "add")
            check_hugrs("extend" if via_extend else "add")
        elif k == 2:  # track_wire
            cands = sorted(wires)
            if not cands:
                continue
            key = ch.pick(cands, "track-which")
            ret = t.track_wire(twires[key])
            ctx.ev(0, "track_wire", list(key), ret)
            model.append((key, wires[key][1]))
            ctx.checked("track")
            if ret != len(model) - 1:
                ctx.violate("tracked", "track_wire-returned-index", {"got": ret, "expected": len(model) - 1}, stop=True)
            check_tracked("track_wire")
        elif k == 3:  # track_wires / track_inputs
            if ch.coin(1, 2, "track_inputs"):
                ret = t.track_inputs()
                keys = [wkey(w) for w in p.inputs()]
                ctx.ev(0, "track_inputs", None, ret)
            else:
                cands = sorted(wires)
                keys = [ch.pick(cands, "tw") for _ in range(ch.draw(3, "ntw"))] if cands else []
                form = ch.draw(4, "iterable-form")
                ws = [twires[k2] for k2 in keys]
                # track_wires takes any iterable of wires: a list, a tuple, a one-shot iterator, a generator
                arg = [ws, tuple(ws), iter(ws), (w for w in ws)][form]
                ret = t.track_wires(arg)
                ctx.ev(0, "track_wires", [["list", "tuple", "iterator", "generator"][form], [list(k2) for k2 in keys]], ret)
                if form >= 2:
                    ctx.probe("wires_given_as_one_shot_iterator")
            exp = list(range(len(model), len(model) + len(keys)))
            for k2 in keys:
                model.append((k2, wires[k2][1]))
            if ret != exp:
                ctx.violate("tracked", "track_wires-returned-indices", {"got": ret, "expected": exp}, stop=True)
            check_tracked("track_wires")
        elif k == 4:  # untrack
            if ch.coin(1, 10, "untrack-bad") or not any(e is not None for e in model):
                bad = [i for i, e in enumerate(model) if e is None] + [len(model)]
                i = ch.pick(bad, "untrack-idx")
                ctx.probe("untracked_index_used")
                try:
                    t.untrack_wire(i)
                    ctx.ev(0, "untrack_wire", i, "returned")
                    ctx.violate("indexerror", "untracked-index-accepted:untrack_wire", {"index": i}, stop=True)
                except IndexError:
                    ctx.ev(0, "untrack_wire", i, "IndexError")
                ctx.fault("untracked_index_then_continue")
                check_tracked("refused-untrack_wire")
                check_hugrs("refused-untrack_wire")
                continue
            i = ch.pick([j for j, e in enumerate(model) if e is not None], "untrack-idx")
            w = t.untrack_wire(i)
            ctx.ev(0, "untrack_wire", i, list(wkey(w)))
            if wkey(w) != model[i][0]:
                ctx.violate("tracked", "untrack-returned-wire", {"got": wkey(w), "expected": model[i][0]}, stop=True)
            model[i] = None
            ctx.probe("untrack")
            check_tracked("untrack_wire")
        elif k == 5:  # tracked_wire query
            i = ch.draw(len(model) + 2, "query-idx")
            exp = model[i] if i < len(model) else None
            try:
                w = wkey(t.tracked_wire(i))
            except IndexError:
                w = "IndexError"
            ctx.ev(0, "tracked_wire", i, w if isinstance(w, str) else list(w))
            ctx.checked("indexerror")
            if w != (exp[0] if exp is not None else "IndexError"):
                ctx.violate("tracked", "tracked_wire-query", {"index": i, "got": w, "expected": exp}, stop=True)
        else:  # close
            closed = True
            break
    # close: outputs from indices
    if ch.coin(1, 4, "refused-close-first"):
        # fault, then workload: outputs named by an index that is not tracked (after some that are) are refused, the
        # caller catches the error and closes properly
        good = [i for i, e in enumerate(model) if e is not None][:2]
        bad = ch.pick([i for i, e in enumerate(model) if e is None] + [len(model)], "bad-out-idx")
        try:
            t.set_indexed_outputs(*good, bad)
            got = "returned"
        except IndexError:
            got = "IndexError"
        except Exception as e:  # noqa: BLE001
            got = type(e).__name__
        ctx.ev(0, "set_indexed_outputs", [*good, bad], got)
        ctx.fault("untracked_index_then_continue")
        ctx.checked("indexerror")
        if got != "IndexError":
            ctx.violate("indexerror", f"untracked-index-accepted:set_indexed_outputs:{got}", {"index": bad}, stop=True)
        check_tracked("refused-set_indexed_outputs")
        check_hugrs("refused-set_indexed_outputs")
    if ch.coin(1, 2, "close-tracked"):
        t.set_tracked_outputs()
        outs = [e[0] for e in model if e is not None]
        ctx.ev(0, "set_tracked_outputs", None, [list(k) for k in outs])
        p.set_outputs(*[wires[k][0] for k in outs])
    else:
        n_out = ch.draw(4, "n-outs")
        targs, pargs = [], []
        for _ in range(n_out):
            a = pick_arg("*", False)
            if a is None:
                break
            if a[0] == "int":
                targs.append(a[1])
                pargs.append(model[a[1]][0])
            else:
                targs.append(twires[a[1]])
                pargs.append(a[1])
        t.set_indexed_outputs(*targs)
        ctx.ev(0, "set_indexed_outputs", [x if isinstance(x, int) else list(wkey(x)) for x in targs])
        p.set_outputs(*[wires[k][0] for k in pargs])
    ctx.steps += 1
    check_hugrs("close")
    ctx.checked("close")
    if t.parent_op.outputs != p.parent_op.outputs or t.hugr.num_out_ports(t.parent_node) != p.hugr.num_out_ports(p.parent_node):
        ctx.violate("hugr", "outputs-differ:after-close", {"tracked": repr(t.parent_op.outputs), "plain": repr(p.parent_op.outputs)})
    try:
        if t.hugr.to_json() != p.hugr.to_json():
            ctx.violate("hugr", "serialised-differ:after-close", {})
    except Exception as e:  # noqa: BLE001
        ctx.violate("no-crash", f"to_json:{type(e).__name__}", repr(e))
