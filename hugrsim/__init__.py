"""hugrsim: seeded deterministic simulation kernel for hugr-py (see /verif/DESIGN.md)."""
