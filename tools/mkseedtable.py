#!/usr/bin/env python3
"""Rewrite the seeded-changes table in DESIGN.md (between the SEEDTABLE markers) from /verif/seeded/*/meta.json."""
import glob, json, os, re

def key(f):
    sid = f.split('/')[-2]
    prop, rest = sid.split('-', 1)
    rnd = int(rest[1]) if rest.startswith('r') else 1
    return (prop, rnd, int(rest.split('.')[-1]))

rows = []
n = det = late = nj = 0
for f in sorted(glob.glob('/verif/seeded/*/meta.json'), key=key):
    m = json.load(open(f))
    notes_p = os.path.join(os.path.dirname(f), 'notes.md')
    notes = open(notes_p).read() if os.path.exists(notes_p) else ''
    title = next((l.strip('# ').strip() for l in notes.splitlines() if l.strip()), '')
    title = re.sub(r'^(Change|Regression)\s*\d+\s*[-–—:.]*\s*', '', title)[:100].replace('|', '/')
    r = m['results'][m['property']]
    keys = ", ".join(k.split('/', 1)[1] for k in r['violations'][:2])
    n += 1
    det += r['rc'] == 1
    hist = ''
    if 'history' in m:
        late += 1
        h = m['history']
        hist = ' — at first ' + h.split('caught after')[0].strip().rstrip(';').replace('missed at first', 'missed').replace('harness error at first', 'a harness error') + '; caught after ' + h.split('caught after', 1)[1].strip() if 'caught after' in h else ' — ' + h
    notj = m.get('history', '').startswith('NOT judged')
    nj += bool(notj and r['rc'] != 1)
    label = 'detected' if r['rc'] == 1 else ('not judged' if notj else 'MISSED')
    rows.append(f"| {m['id']} | {title} | {label}: `{keys}`{hist.replace('|', '/')} |")
tbl = (f"{n} seeded changes, {det} detected by the check of their own property ({late} carry a note: caught only after the check was "
       f"strengthened, or strengthened on reading the sub-agent's report before the first evaluation), {nj} not judged by decision, {n - det - nj} missed and left open (round 6; see the bullets above the table).\n\n"
       "| seeded id | change (sub-agent's title) | check of that property |\n|---|---|---|\n" + "\n".join(rows) + "\n")
p = '/verif/DESIGN.md'
s = open(p).read()
a, b = '<!-- SEEDTABLE:BEGIN -->', '<!-- SEEDTABLE:END -->'
if a in s:
    s = s[:s.index(a) + len(a)] + "\n" + tbl + s[s.index(b):]
else:
    i = s.index('| seeded id | change')
    j = s.index('### 12.5')
    s = s[:i] + a + "\n" + tbl + b + "\n\n" + s[j:]
open(p, 'w').write(s)
print(n, det, late)
