#!/usr/bin/env python3
"""mkprompt5.py <PROP> — prompt for a round-6 sub-agent (property text + scratch worktree only; titles of earlier
changes so that it looks elsewhere).  Written to /tmp/se-prompt-<PROP>.txt."""
import glob, json, os, re, sys

prop = sys.argv[1]
wt = f"/tmp/se-{prop}"
p = next(json.loads(l) for l in open('/verif/properties.jsonl') if json.loads(l)['id'] == prop)
titles = []
for f in sorted(glob.glob(f'/verif/seeded/{prop}-*/notes.md')):
    notes = open(f).read()
    t = next((l.strip('# ').strip() for l in notes.splitlines() if l.strip()), '')
    titles.append(re.sub(r'^(Change|Regression)\s*\d+\s*[-–—:.]*\s*', '', t)[:140])
text = f"""You are helping to evaluate a verification tool. Your job is to play the role of a developer who introduces a subtle regression into the Python package `hugr-py` (CQCL/hugr).

You have your own scratch git worktree of the repository at {wt} (work ONLY there; never touch /repo or /verif, and do not read anything under /verif). Python is /venv/bin/python; run the package as `cd {wt} && PYTHONPATH={wt}/hugr-py/src /venv/bin/python ...`. There is no network. The Rust binary `hugr` is not available, so tests needing it fail both before and after; ignore those.

The property that must be broken:

{prop}: {p['title']}

{p['statement']}

Quantified over: {p['quantifier']['text']}

Anchored in: {', '.join(p['anchors']['files'])}


Produce TWO different, independent source changes to hugr-py (under {wt}/hugr-py/src/hugr), each of which:
  1. breaks the property above (some input / history / interleaving of API calls that satisfied it before now violates it);
  2. still compiles/imports, and the existing test-suite result is unchanged: run
       cd {wt} && /venv/bin/python -m pytest -q -p no:cacheprovider --timeout=900 --continue-on-collection-errors 2>&1 | tail -3
     before any change (expect `29 failed, 180 passed, 1 skipped, 10 errors`) and after each change (must be identical counts, and no previously passing test may fail);
  3. needs something SPECIFIC to manifest. Do NOT make changes that ordinary simple use (e.g. the examples in docstrings, or the first obvious call) would expose at once. Plausible "refactoring slip" / "optimisation" / "off-by-one in a rare branch" style bugs are ideal. The two changes should be in different functions / mechanisms where possible.

For each change i in 1..2 write, under {wt}/out/<i>/ :
  - patch.diff : `git diff` of ONLY that change against the clean worktree (apply each change on a clean tree: `git checkout -- .` between them);
  - demo.py : a small standalone program (run with PYTHONPATH={wt}/hugr-py/src /venv/bin/python demo.py) that exits 0 and prints PASS on the clean tree and exits 1 (printing what went wrong) with the change applied. Verify both outcomes yourself;
  - notes.md : first line a short title of the change; then which part of the property it breaks, what exactly is needed for it to manifest, and the test-suite counts you observed with the change.

Finish with `git checkout -- .` so the worktree is clean (keep the out/ directory, it is untracked). You have about 20 minutes in total: do not explore at length; run the full test suite at most once per change. Reply with a short summary of the two changes (one paragraph each).


ADDITIONAL CONSTRAINTS FOR THIS ROUND
- Other developers already tried the mechanisms listed below for this property; do NOT repeat them or close variants. Look for different functions, different data paths and different triggering conditions:
""" + "".join(f"  * {t}\n" for t in titles) + f"""- Make the TWO changes of two different characters, chosen from:
  (a) TWO COOPERATING SITES: edit two places (two functions, or a writer and its reader, or a constructor and a later query) so that each edit on its own is harmless or even looks like a clean-up, and only the two TOGETHER break the property, and only for some inputs;
  (b) MULTI-STEP HISTORY: the property breaks only after a specific sequence of at least four public API calls in a particular order (e.g. add, delete, add again so that an index is reused, then insert; or open two builders, finish the inner one, add to the outer one, then query) - every shorter prefix and every other order of the same calls stays correct;
  (c) FAULT AT A PARTICULAR POINT: the property breaks only when an error happens at one particular moment and the program carries on - a call that raises half-way and leaves state behind that a LATER legal call trips over, a refused operation followed by further work on the same object, input bytes damaged or cut at one particular offset / field, an exception raised inside a `with` block of a builder;
  (d) STATE-DEPENDENT FAST PATH: introduce a cache, memo, early return or "already done" flag that is right the first time and wrong after some later mutation of the object it was computed from.
- Unusual-but-legal input shapes are welcome in all three (empty rows, zero outputs, repeated elements, the same object used twice, non-ASCII / very long names, boundary indices, reused node indices after deletion).
- Never use `git stash` (the stash is shared between worktrees); use `git checkout -- .` and `git apply` only.
- Put a file {wt}/out/conftest.py containing `collect_ignore_glob = ["*"]` so pytest does not collect your demo files, and guard each demo with `if __name__ == "__main__":`.
"""
open(f"/tmp/se-prompt-{prop}.txt", "w").write(text)
print(len(titles), "earlier titles;", f"/tmp/se-prompt-{prop}.txt")
