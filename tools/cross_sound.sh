#!/bin/bash
# cross_sound.sh: every listed property's check against every listed property-preserving change (scratch tree, scratch outputs)
WT=/tmp/cross-repo
git -C /repo worktree remove --force $WT 2>/dev/null
git -C /repo worktree add -q --detach $WT HEAD
export HUGR_SRC=$WT/hugr-py/src HUGR_REPO=$WT VERIF_SCRATCH=/tmp/cross-out
cd /tmp/verif-snap2
for sid in $SIDS; do
  git -C $WT apply /verif/sound/$sid/patch.diff || { echo "$sid: patch does not apply"; continue; }
  for p in $PROPS; do
    out=$(./check $p 2>&1)
    rc=$?
    keys=$(echo "$out" | grep "  violation " | awk '{print $2}' | head -3 | tr '\n' ' ')
    echo "$sid x $p: rc=$rc $keys"
  done
  git -C $WT checkout -- .
done
git -C /repo worktree remove --force $WT
rm -rf /tmp/cross-out
echo done
