#!/usr/bin/env python3
"""Regenerate /verif/MANIFEST.json from hugrsim/meta.py (keeps the manifest and the driver in step)."""
import json, os, sys
ROOT = os.path.dirname(os.path.dirname(os.path.abspath(__file__)))
sys.path.insert(0, ROOT)
from hugrsim.meta import PROPS, NOT_APPLICABLE, ENGINES  # noqa: E402

BASELINE = ("cd /repo && /venv/bin/python -m pytest -ra -q -p no:cacheprovider --timeout=900 "
            "--continue-on-collection-errors")
checks = []
for pid in sorted(PROPS):
    m = PROPS[pid]
    checks.append({
        "property_id": pid,
        "quick_cmd": f"timeout 600 ./check {pid} --tier quick",
        "thorough_cmd": f"timeout 3600 ./check {pid} --tier thorough",
        "evidence_file": f"/verif/evidence/{pid}.json",
        "replay_cmd_template": "./check --replay {path}",
        "engine": m["engine"],
        "level_claimed": {"category": m["level"], "text": m["level_text"], "design_ref": m.get("design_ref", "DESIGN.md §6 " + pid)},
        "level_note": m["level_note"],
        "technique": m["technique"],
    })
man = {
    "version": 1,
    "setup_cmd": "/venv/bin/python -m pip install -q --no-index --find-links /opt/veriftools/wheels --target /verif/.deps jsonschema",
    "hooks": {
        "guard": "HUGR_PY_VERIF",
        "enable": "no hooks were added to /repo: every seam is reachable from outside (PYTHONHASHSEED, PYTHONPATH=$HUGR_SRC, the bytes between to_bytes/from_bytes); the guard name is reserved and unused",
        "baseline_off_cmd": BASELINE,
        "source_commits": [],
        "add_only": True,
    },
    "engines": ENGINES,
    "checks": checks,
    "not_applicable": NOT_APPLICABLE,
    "notes": "Technique family: deterministic simulation with fault injection (seeded schedules / operation histories / storage faults against executable reference models). Exit codes of ./check: 0 held, 1 VIOLATION, 2 harness error or inconclusive. See DESIGN.md.",
}
with open(os.path.join(ROOT, "MANIFEST.json"), "w") as f:
    json.dump(man, f, indent=1)
print("wrote MANIFEST.json with", len(checks), "checks,", len(NOT_APPLICABLE), "not applicable")
