#!/usr/bin/env python3
"""Run the repository's baseline test command (hooks/guards off) and compare with BASELINE.json."""
import json, os, subprocess, sys, tempfile
import xml.etree.ElementTree as ET

b = json.load(open("/root/.vp/BASELINE.json"))
want = set(b["stable_pass"])
with tempfile.TemporaryDirectory() as td:
    x = os.path.join(td, "r.xml")
    cmd = b["cmd"].replace("<file>", x)
    env = {k: v for k, v in os.environ.items() if k not in ("HUGR_PY_VERIF",)}
    subprocess.run(cmd, shell=True, env=env, stdout=subprocess.DEVNULL, stderr=subprocess.DEVNULL, timeout=1800)
    passed = set()
    for tc in ET.parse(x).getroot().iter("testcase"):
        if not any(ch.tag in ("failure", "error", "skipped") for ch in tc):
            passed.add(f"{tc.get('classname')}::{tc.get('name')}")
missing = sorted(want - passed)
print(f"baseline stable_pass={len(want)} passed_now={len(passed)} missing={len(missing)} extra={len(passed - want)}")
for m in missing[:20]:
    print("  MISSING", m)
sys.exit(1 if missing else 0)
