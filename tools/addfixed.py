#!/usr/bin/env python3
"""addfixed.py <property> <text>  — append a 'fixed:' entry for /repo HEAD to known_findings.json"""
import json, subprocess, sys
p = '/verif/known_findings.json'
k = json.load(open(p))
rev = subprocess.check_output(['git', '-C', '/repo', 'log', '-1', '--format=%h']).decode().strip()
k['fixed'].append(f"fixed: property={sys.argv[1]} {rev} {sys.argv[2]}")
json.dump(k, open(p, 'w'), indent=1)
print(k['fixed'][-1])
