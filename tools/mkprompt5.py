#!/usr/bin/env python3
"""mkprompt5.py <PROP> — prompt for a round-5 sub-agent (property text + scratch worktree only; titles of earlier
changes so that it looks elsewhere).  Written to /tmp/se-prompt-<PROP>.txt."""
import glob, json, os, re, sys

prop = sys.argv[1]
wt = f"/tmp/se-{prop}"
p = next(json.loads(l) for l in open('/verif/properties.jsonl') if json.loads(l)['id'] == prop)
titles = []
for f in sorted(glob.glob(f'/verif/seeded/{prop}-*/notes.md')):
    notes = open(f).read()
    t = next((l.strip('# ').strip() for l in notes.splitlines() if l.strip()), '')
    titles.append(re.sub(r'^(Change|Regression)\s*\d+\s*[-–—:.]*\s*', '', t)[:140])
text = f"""You are helping to evaluate a verification tool. Your job is to play the role of a developer who introduces a subtle regression into the Python package `hugr-py` (CQCL/hugr).

You have your own scratch git worktree of the repository at {wt} (work ONLY there; never touch /repo or /verif, and do not read anything under /verif). Python is /venv/bin/python; run the package as `cd {wt} && PYTHONPATH={wt}/hugr-py/src /venv/bin/python ...`. There is no network. The Rust binary `hugr` is not available, so tests needing it fail both before and after; ignore those.

The property that must be broken:

{prop}: {p['title']}

{p['statement']}

Quantified over: {p['quantifier']['text']}

Anchored in: {', '.join(p['anchors']['files'])}


Produce THREE different, independent source changes to hugr-py (under {wt}/hugr-py/src/hugr), each of which:
  1. breaks the property above (some input / history / interleaving of API calls that satisfied it before now violates it);
  2. still compiles/imports, and the existing test-suite result is unchanged: run
       cd {wt} && /venv/bin/python -m pytest -q -p no:cacheprovider --timeout=900 --continue-on-collection-errors 2>&1 | tail -3
     before any change (expect `29 failed, 180 passed, 1 skipped, 10 errors`) and after each change (must be identical counts, and no previously passing test may fail);
  3. needs something SPECIFIC to manifest. Do NOT make changes that ordinary simple use (e.g. the examples in docstrings, or the first obvious call) would expose at once. Plausible "refactoring slip" / "optimisation" / "off-by-one in a rare branch" style bugs are ideal. The three changes should be in different functions / mechanisms where possible.

For each change i in 1..3 write, under {wt}/out/<i>/ :
  - patch.diff : `git diff` of ONLY that change against the clean worktree (apply each change on a clean tree: `git checkout -- .` between them);
  - demo.py : a small standalone program (run with PYTHONPATH={wt}/hugr-py/src /venv/bin/python demo.py) that exits 0 and prints PASS on the clean tree and exits 1 (printing what went wrong) with the change applied. Verify both outcomes yourself;
  - notes.md : first line a short title of the change; then which part of the property it breaks, what exactly is needed for it to manifest, and the test-suite counts you observed with the change.

Finish with `git checkout -- .` so the worktree is clean (keep the out/ directory, it is untracked). Reply with a short summary of the three changes (one paragraph each).


ADDITIONAL CONSTRAINTS FOR THIS ROUND
- Other developers already tried the mechanisms listed below for this property; do NOT repeat them or close variants. Look for different functions, different data paths and different triggering conditions:
""" + "".join(f"  * {t}\n" for t in titles) + f"""- Make the three changes of three different characters:
  (a) FEATURE INTERACTION: each of two (or three) features works on its own and in the combinations the examples and tests use; the property breaks only when they are COMBINED in one program / object - e.g. a polymorphic call inside a control-flow block inside a detached builder that is then inserted; metadata together with index reuse together with insertion; compression together with repeated extension names; an order edge on a node that also has a static input; a tracked index together with a nested builder;
  (b) REPRESENTATION DEPENDENCE: the property breaks only for one of several EQUAL-BUT-DIFFERENTLY-REPRESENTED forms of the same thing - `Tuple(...)` vs `Sum([[...]])`, `UnitSum(2)` vs `Bool` vs `Sum([[], []])`, `Option` / `Either` vs the general sum, an opaque `Custom` op / `Opaque` type vs its definition-backed `ExtOp` / `ExtType` form, a `Node` handle with vs without a known output count, a wire given as a node vs as an out-port, a value given as a Python bool vs int, a row given as a list vs a tuple - while the representation that examples and tests use stays correct;
  (c) LIFECYCLE MOMENT: the property breaks only at a particular MOMENT in an object's life - before its outputs are set, between `set_outputs` and leaving the `with` block, after the context manager has exited, when a method that is normally called once is called a second time, when an object is used after `copy.copy` / `copy.deepcopy` / a pickle round trip, or when a query is made in the middle of a multi-call construction - while the usual call sequence stays correct.
- Unusual-but-legal input shapes are welcome in all three (empty rows, zero outputs, repeated elements, the same object used twice, non-ASCII / very long names, boundary indices, reused node indices after deletion).
- Never use `git stash` (the stash is shared between worktrees); use `git checkout -- .` and `git apply` only.
- Put a file {wt}/out/conftest.py containing `collect_ignore_glob = ["*"]` so pytest does not collect your demo files, and guard each demo with `if __name__ == "__main__":`.
"""
open(f"/tmp/se-prompt-{prop}.txt", "w").write(text)
print(len(titles), "earlier titles;", f"/tmp/se-prompt-{prop}.txt")
