#!/usr/bin/env python3
"""sethistory.py <seeded-id> <text> — record how a seeded change came to be detected."""
import json
import sys

p = f"/verif/seeded/{sys.argv[1]}/meta.json"
m = json.load(open(p))
m["history"] = sys.argv[2]
json.dump(m, open(p, "w"), indent=1)
