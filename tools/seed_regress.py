#!/usr/bin/env python3
"""seed_regress.py [--lanes=N] [ID-substring ...] — re-apply every stored seeded change (/verif/seeded/*/patch.diff)
to a scratch worktree of /repo's HEAD (never /repo itself), run the quick check of its property against that tree
(HUGR_SRC / HUGR_REPO / VERIF_SCRATCH point the check at the scratch tree and at scratch output directories), and
report detected / missed / stale.  meta.json of each change is updated with the latest result.  The scratch worktrees
and output directories are removed at the end."""
import glob
import json
import os
import shutil
import subprocess
import sys
from concurrent.futures import ThreadPoolExecutor

VERIF = "/verif"
# where ./check is run from: a snapshot worktree of /verif (a commit) lets the checks be edited while an evaluation runs
CHECK_ROOT = __import__("os").environ.get("VERIF_CHECK_ROOT", VERIF)


def sh(cmd, cwd=None, timeout=3600, env=None):
    p = subprocess.run(cmd, shell=True, cwd=cwd, capture_output=True, text=True, timeout=timeout, env=env)
    return p.returncode, p.stdout + p.stderr


def lane_run(lane, sids, workers):
    wt, out = f"/tmp/regress-wt-{lane}", f"/tmp/regress-out-{lane}"
    sh(f"git -C /repo worktree remove --force {wt}")
    shutil.rmtree(out, ignore_errors=True)
    rc, o = sh(f"git -C /repo worktree add -q --detach {wt} HEAD")
    if rc != 0:
        return [(s, "stale", 2, [o[:200]]) for s in sids]
    env = dict(os.environ, HUGR_SRC=f"{wt}/hugr-py/src", HUGR_REPO=wt, VERIF_SCRATCH=out, VERIF_WORKERS=str(workers))
    res = []
    try:
        for sid in sids:
            d = f"{VERIF}/seeded/{sid}/"
            meta = json.load(open(d + "meta.json"))
            prop = meta["property"]
            rc, o = sh(f"git -C {wt} apply {d}patch.diff")
            if rc != 0:
                rc, o = sh(f"git -C {wt} apply --3way {d}patch.diff")
                if rc != 0 or "<<<<<<<" in sh(f"git -C {wt} diff")[1]:
                    sh(f"git -C {wt} reset -q --hard HEAD")
                    res.append((sid, "stale", 2, []))
                    print(f"{sid}: STALE (patch no longer applies)", flush=True)
                    continue
                rcd, newdiff = sh(f"git -C {wt} diff --cached")
                if newdiff.strip():
                    open(d + "patch.diff", "w").write(newdiff)  # keep the stored patch applicable to the current base
                    print(f"{sid}: stored patch rebased onto the current /repo head", flush=True)
                sh(f"git -C {wt} reset -q")
            try:
                rcc, oc = sh(f"./check {prop}", cwd=CHECK_ROOT, env=env)
            finally:
                sh(f"git -C {wt} checkout -- .")
            keys = [l.split()[1] for l in oc.splitlines() if l.strip().startswith("violation ")]
            k = "detected" if rcc == 1 else "missed"
            meta.setdefault("results", {})[prop] = {"rc": rcc, "violations": keys}
            meta["detected_by"] = sorted(p for p, r in meta["results"].items() if r["rc"] == 1)
            json.dump(meta, open(d + "meta.json", "w"), indent=1)
            res.append((sid, k, rcc, keys))
            print(f"{sid}: {k.upper()} rc={rcc} {keys[:2]}", flush=True)
    finally:
        sh(f"git -C /repo worktree remove --force {wt}")
        sh("git -C /repo worktree prune")
        shutil.rmtree(out, ignore_errors=True)
    return res


def main():
    args = sys.argv[1:]
    lanes = next((int(a.split("=")[1]) for a in args if a.startswith("--lanes=")), 1)
    only = [a for a in args if not a.startswith("--")]
    sids = [os.path.basename(d.rstrip("/")) for d in sorted(glob.glob(f"{VERIF}/seeded/*/"))]
    sids = [s for s in sids if not only or any(x in s for x in only)]
    workers = max(2, (os.cpu_count() or 4) // lanes)
    with ThreadPoolExecutor(lanes) as ex:
        parts = list(ex.map(lambda i: lane_run(i, sids[i::lanes], workers), range(lanes)))
    res = {"detected": [], "missed": [], "stale": []}
    for part in parts:
        for sid, k, _, _ in part:
            res[k].append(sid)
    print(json.dumps({k: len(v) for k, v in res.items()}), "missed:", sorted(res["missed"]), "stale:", sorted(res["stale"]))
    return 1 if res["missed"] or res["stale"] else 0


if __name__ == "__main__":
    sys.exit(main())
