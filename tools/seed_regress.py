#!/usr/bin/env python3
"""seed_regress.py [ID-substring ...] — re-apply every stored seeded change (/verif/seeded/*/patch.diff) to /repo,
run the quick check of its property, undo it straight afterwards, and report detected / missed / stale."""
import glob
import json
import os
import subprocess
import sys

VERIF = "/verif"


def sh(cmd, cwd=None, timeout=1800):
    p = subprocess.run(cmd, shell=True, cwd=cwd, capture_output=True, text=True, timeout=timeout)
    return p.returncode, p.stdout + p.stderr


def main():
    only = sys.argv[1:]
    rc, o = sh("git -C /repo status --short --untracked-files=no")
    if o.strip():
        print("refusing: /repo has uncommitted changes")
        return 2
    res = {"detected": [], "missed": [], "stale": []}
    for d in sorted(glob.glob(f"{VERIF}/seeded/*/")):
        sid = os.path.basename(d.rstrip("/"))
        if only and not any(x in sid for x in only):
            continue
        meta = json.load(open(d + "meta.json"))
        prop = meta["property"]
        rc, o = sh(f"git -C /repo apply {d}patch.diff")
        if rc != 0:
            rc, o = sh(f"git -C /repo apply --3way {d}patch.diff")
            if rc != 0 or "<<<<<<<" in sh("git -C /repo diff")[1]:
                sh("git -C /repo reset -q --hard HEAD")
                res["stale"].append(sid)
                print(f"{sid}: STALE (patch no longer applies)", flush=True)
                continue
            rcd, newdiff = sh("git -C /repo diff --cached")
            if newdiff.strip():
                open(d + "patch.diff", "w").write(newdiff)  # keep the stored patch applicable to the current base
                print(f"{sid}: stored patch rebased onto the current /repo head", flush=True)
            sh("git -C /repo reset -q")  # keep the working tree change, unstage
        try:
            rcc, oc = sh(f"./check {prop}", cwd=VERIF)
        finally:
            sh("git -C /repo checkout -- .")
            sh(f"rm -f {VERIF}/replays/*.json")
        keys = [l.split()[1] for l in oc.splitlines() if l.strip().startswith("violation ")]
        k = "detected" if rcc == 1 else "missed"
        res[k].append(sid)
        print(f"{sid}: {k.upper()} rc={rcc} {keys[:2]}", flush=True)
    print(json.dumps({k: len(v) for k, v in res.items()}), "missed:", res["missed"], "stale:", res["stale"])
    return 1 if res["missed"] or res["stale"] else 0


if __name__ == "__main__":
    sys.exit(main())
