#!/usr/bin/env python3
"""seed_try.py <PROP> <worktree> — confirm and evaluate seeded changes written by a sub-agent.

For each <worktree>/out/<i>/ (patch.diff, demo.py, notes.md):
  1. in the scratch worktree (clean): demo passes; apply patch: demo fails; baseline tests unchanged; revert;
  2. apply the patch in the scratch worktree (moved to /repo's HEAD), run the property's quick check (and optionally
     others) against that tree, undo it straight afterwards;
  3. if confirmed, store under /verif/seeded/<PROP>-<i>/ with meta.json.
"""
import json
import os
import shutil
import subprocess
import sys
import xml.etree.ElementTree as ET

VERIF = "/verif"
# where ./check is run from: a snapshot worktree of /verif (a commit) lets the checks be edited while an evaluation runs
CHECK_ROOT = __import__("os").environ.get("VERIF_CHECK_ROOT", VERIF)


def sh(cmd, cwd=None, env=None, timeout=1800):
    p = subprocess.run(cmd, shell=True, cwd=cwd, env=env, capture_output=True, text=True, timeout=timeout)
    return p.returncode, p.stdout + p.stderr


def baseline(tree):
    b = json.load(open("/root/.vp/BASELINE.json"))
    x = f"/tmp/seedtry-junit-{os.getpid()}.xml"
    cmd = b["cmd"].replace("cd /repo", f"cd {tree}").replace("<file>", x) + " --ignore=out"
    sh(cmd)
    passed = set()
    for tc in ET.parse(x).getroot().iter("testcase"):
        if not any(c.tag in ("failure", "error", "skipped") for c in tc):
            passed.add(f"{tc.get('classname')}::{tc.get('name')}")
    os.remove(x)
    return sorted(set(b["stable_pass"]) - passed)


def main():
    prop, wt = sys.argv[1], sys.argv[2]
    extra_props = [a for a in sys.argv[3:] if not a.startswith("--")]
    suffix = next((a.split("=", 1)[1] for a in sys.argv[3:] if a.startswith("--suffix=")), "")
    env = dict(os.environ, PYTHONPATH=f"{wt}/hugr-py/src")
    outs = sorted(d for d in os.listdir(f"{wt}/out") if os.path.isdir(f"{wt}/out/{d}") and os.path.exists(f"{wt}/out/{d}/patch.diff"))
    for i in outs:
        d = f"{wt}/out/{i}"
        sid = f"{prop}-{suffix}{i}"
        print(f"=== {sid}")
        rc, o = sh("git status --short --untracked-files=no", cwd=wt)
        if o.strip():
            sh("git checkout -- .", cwd=wt)
        rc_clean, o_clean = sh(f"/venv/bin/python {d}/demo.py", cwd=d, env=env, timeout=600)
        rc, o = sh(f"git apply {d}/patch.diff", cwd=wt)
        if rc != 0:
            print("  patch does not apply in worktree:", o[:300])
            continue
        rc_mut, o_mut = sh(f"/venv/bin/python {d}/demo.py", cwd=d, env=env, timeout=600)
        missing = baseline(wt)
        sh("git checkout -- .", cwd=wt)
        confirmed = rc_clean == 0 and rc_mut != 0 and not missing
        print(f"  demo clean rc={rc_clean}, with change rc={rc_mut}, baseline tests lost={len(missing)} -> {'CONFIRMED' if confirmed else 'NOT CONFIRMED'}")
        if not confirmed:
            print("   ", o_clean[-300:], "|", o_mut[-300:], missing[:3])
            continue
        # run the checks against the change: the scratch worktree is moved to /repo's current HEAD, the change applied
        # there, and the checks pointed at that tree (HUGR_SRC / HUGR_REPO) with scratch output directories
        # (VERIF_SCRATCH), so /repo itself is never touched; undone straight afterwards
        head = sh("git -C /repo rev-parse HEAD")[1].strip()
        sh(f"git checkout -q --detach {head}", cwd=wt)
        rc, o = sh(f"git apply {d}/patch.diff", cwd=wt)
        if rc != 0:
            print("  patch does not apply to /repo's HEAD:", o[:300])
            continue
        results = {}
        scratch = f"/tmp/try-out-{prop}"
        cenv = dict(os.environ, HUGR_SRC=f"{wt}/hugr-py/src", HUGR_REPO=wt, VERIF_SCRATCH=scratch)
        try:
            for p in [prop, *extra_props]:
                rcc, oc = sh(f"./check {p}", cwd=CHECK_ROOT, timeout=1800, env=cenv)
                keys = [l.split()[1] for l in oc.splitlines() if l.strip().startswith("violation ")]
                results[p] = {"rc": rcc, "violations": keys[:8]}
                print(f"  check {p}: rc={rcc} {'DETECTED' if rcc == 1 else ('HARNESS-ERROR' if rcc == 2 else 'MISSED')} {keys[:4]}")
                if rcc == 2:
                    print("   ", [l for l in oc.splitlines() if "HARNESS" in l][:2])
        finally:
            sh("git checkout -- .", cwd=wt)
            shutil.rmtree(scratch, ignore_errors=True)
        dst = f"{VERIF}/seeded/{sid}"
        os.makedirs(dst, exist_ok=True)
        for f in ("patch.diff", "demo.py", "notes.md"):
            if os.path.exists(f"{d}/{f}"):
                shutil.copy(f"{d}/{f}", dst)
        meta = {"id": sid, "property": prop, "source": "independent sub-agent given only the property text and a scratch worktree",
                "needs_to_manifest": "see notes.md",
                "confirmed": {"demo_clean_rc": rc_clean, "demo_with_change_rc": rc_mut, "baseline_tests_lost": len(missing)},
                "ran": [f"./check {p}" for p in results], "results": results, "first_result": results[prop]["rc"],
                "detected_by": [p for p, r in results.items() if r["rc"] == 1]}
        if os.path.exists(f"{dst}/meta.json"):
            try:
                oldm = json.load(open(f"{dst}/meta.json"))
                if "history" in oldm:
                    meta["history"] = oldm["history"]
                if "first_result" in oldm:
                    meta["first_result"] = oldm["first_result"]
            except Exception:  # noqa: BLE001
                pass
        json.dump(meta, open(f"{dst}/meta.json", "w"), indent=1)


if __name__ == "__main__":
    main()
