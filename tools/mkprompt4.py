#!/usr/bin/env python3
"""mkprompt4.py <PROP> — prompt for a round-4 sub-agent (property text + scratch worktree only; titles of earlier
changes so that it looks elsewhere).  Written to /tmp/sd-prompt-<PROP>.txt."""
import glob, json, os, re, sys

prop = sys.argv[1]
wt = f"/tmp/sd-{prop}"
p = next(json.loads(l) for l in open('/verif/properties.jsonl') if json.loads(l)['id'] == prop)
titles = []
for f in sorted(glob.glob(f'/verif/seeded/{prop}-*/notes.md')):
    notes = open(f).read()
    t = next((l.strip('# ').strip() for l in notes.splitlines() if l.strip()), '')
    titles.append(re.sub(r'^(Change|Regression)\s*\d+\s*[-–—:.]*\s*', '', t)[:140])
text = f"""You are helping to evaluate a verification tool. Your job is to play the role of a developer who introduces a subtle regression into the Python package `hugr-py` (CQCL/hugr).

You have your own scratch git worktree of the repository at {wt} (work ONLY there; never touch /repo or /verif, and do not read anything under /verif). Python is /venv/bin/python; run the package as `cd {wt} && PYTHONPATH={wt}/hugr-py/src /venv/bin/python ...`. There is no network. The Rust binary `hugr` is not available, so tests needing it fail both before and after; ignore those.

The property that must be broken:

{prop}: {p['title']}

{p['statement']}

Quantified over: {p['quantifier']['text']}

Anchored in: {', '.join(p['anchors']['files'])}


Produce THREE different, independent source changes to hugr-py (under {wt}/hugr-py/src/hugr), each of which:
  1. breaks the property above (some input / history / interleaving of API calls that satisfied it before now violates it);
  2. still compiles/imports, and the existing test-suite result is unchanged: run
       cd {wt} && /venv/bin/python -m pytest -q -p no:cacheprovider --timeout=900 --continue-on-collection-errors 2>&1 | tail -3
     before any change (expect `29 failed, 180 passed, 1 skipped, 10 errors`) and after each change (must be identical counts, and no previously passing test may fail);
  3. needs something SPECIFIC to manifest. Do NOT make changes that ordinary simple use (e.g. the examples in docstrings, or the first obvious call) would expose at once. Plausible "refactoring slip" / "optimisation" / "off-by-one in a rare branch" style bugs are ideal. The three changes should be in different functions / mechanisms where possible.

For each change i in 1..3 write, under {wt}/out/<i>/ :
  - patch.diff : `git diff` of ONLY that change against the clean worktree (apply each change on a clean tree: `git checkout -- .` between them);
  - demo.py : a small standalone program (run with PYTHONPATH={wt}/hugr-py/src /venv/bin/python demo.py) that exits 0 and prints PASS on the clean tree and exits 1 (printing what went wrong) with the change applied. Verify both outcomes yourself;
  - notes.md : first line a short title of the change; then which part of the property it breaks, what exactly is needed for it to manifest, and the test-suite counts you observed with the change.

Finish with `git checkout -- .` so the worktree is clean (keep the out/ directory, it is untracked). Reply with a short summary of the three changes (one paragraph each).


ADDITIONAL CONSTRAINTS FOR THIS ROUND
- Other developers already tried the mechanisms listed below for this property; do NOT repeat them or close variants. Look for different functions, different data paths and different triggering conditions:
""" + "".join(f"  * {t}\n" for t in titles) + f"""- Make the three changes of three different characters:
  (a) SCALE / THRESHOLD: correct on small examples, wrong only beyond some size or count - many nodes or children (say more than 40), many ports (8 or more), deep nesting (5 or more levels), a long run of operations of one kind (e.g. only from the 10th deletion / insertion / call on), long strings or payloads, large integers - or only on the N-th use of something;
  (b) ORDER DEPENDENCE: two programs that issue the same independent, legal operations in a different ORDER (or the same program under a different dict / set iteration order, or with equal-but-not-identical key objects) should give the same result but no longer do - the bug is visible for one order only, and the order that examples and tests use stays correct;
  (c) A RARELY USED ENTRY POINT: the main path stays correct, the property breaks only through a less common entry point or option that the quantifier above still covers (a keyword-only option, a deprecated alias, an `extend` / `insert_*` / `from_*` / `to_*` variant, a context-manager exit path, a protocol method such as `__iter__`, `__len__`, `items()`, `__contains__`, a default argument left out or given explicitly).
- Unusual-but-legal input shapes are welcome in all three (empty rows, zero outputs, repeated elements, the same object used twice, non-ASCII / very long names, boundary indices, reused node indices after deletion).
- Never use `git stash` (the stash is shared between worktrees); use `git checkout -- .` and `git apply` only.
- Put a file {wt}/out/conftest.py containing `collect_ignore_glob = ["*"]` so pytest does not collect your demo files, and guard each demo with `if __name__ == "__main__":`.
"""
open(f"/tmp/sd-prompt-{prop}.txt", "w").write(text)
print(len(titles), "earlier titles;", f"/tmp/sd-prompt-{prop}.txt")
