#!/usr/bin/env python3
"""mkpromptS.py <PROP> — prompt for a soundness-round sub-agent: changes under which the property STILL HOLDS (the
checks must stay silent on them).  Written to /tmp/sf-prompt-<PROP>.txt."""
import glob, json, os, re, sys

prop = sys.argv[1]
wt = f"/tmp/sf-{prop}"
p = next(json.loads(l) for l in open('/verif/properties.jsonl') if json.loads(l)['id'] == prop)
titles = []
for f in sorted(glob.glob(f'/verif/seeded/{prop}-*/notes.md')):
    notes = open(f).read()
    t = next((l.strip('# ').strip() for l in notes.splitlines() if l.strip()), '')
    titles.append(re.sub(r'^(Change|Regression)\s*\d+\s*[-–—:.]*\s*', '', t)[:140])
text = f"""You are helping to evaluate a verification tool for FALSE ALARMS. Your job is to play the role of a developer who makes legitimate changes to the Python package `hugr-py` (CQCL/hugr) - changes after which a given property STILL HOLDS. A good checker of that property must stay silent on every one of them.

You have your own scratch git worktree of the repository at {wt} (work ONLY there; never touch /repo or /verif, and do not read anything under /verif). Python is /venv/bin/python; run the package as `cd {wt} && PYTHONPATH={wt}/hugr-py/src /venv/bin/python ...`. There is no network. The Rust binary `hugr` is not available, so tests needing it fail both before and after; ignore those.

The property that must KEEP HOLDING:

{prop}: {p['title']}

{p['statement']}

Quantified over: {p['quantifier']['text']}

Anchored in: {', '.join(p['anchors']['files'])}


Produce THREE different, independent source changes to hugr-py (under {wt}/hugr-py/src/hugr), each of which:
  1. changes the code on the paths the property is anchored in (not a comment-only or whitespace-only change), and changes something OBSERVABLE where the character below asks for it;
  2. leaves the property above true for every input / history / interleaving it quantifies over - read the statement literally and use only freedom it really leaves open; if in doubt whether the statement still holds, do not make that change;
  3. still compiles/imports, and the existing test-suite result is unchanged: run
       cd {wt} && /venv/bin/python -m pytest -q -p no:cacheprovider --timeout=900 --continue-on-collection-errors 2>&1 | tail -3
     before any change (expect `29 failed, 180 passed, 1 skipped, 10 errors`) and after each change (must be identical counts, and no previously passing test may fail).

Make the three changes of three different characters:
  (a) INTERNAL RESTRUCTURING with identical behaviour on everything the statement talks about: other data structures, another traversal or iteration order internally, memoisation with correct invalidation, work moved between functions, objects copied instead of shared (or shared instead of copied where nothing can tell), an early-exit or fast path that is really equivalent;
  (b) AN OBSERVABLE CHANGE OUTSIDE THE STATEMENT: something a user can see changes, but nothing the statement promises - the wording of error messages, `repr` / `str` of objects, an additional attribute or method, a more specific subclass of a documented exception, stricter rejection of arguments that violate the documented parameter types, different behaviour for inputs the statement excludes, log output;
  (c) A DEGREE OF FREEDOM THE STATEMENT LEAVES OPEN is used differently: wherever the statement says "at least", "never smaller than", "some", or is silent (which index a new node gets, whether freed indices are reused, the order in which independent links are enumerated, how sub-positions of links on one port are assigned, how large reported port counts are beyond what is in use, which of several equal spellings of a type is produced where the statement does not fix one, the order of keys in a JSON object, which equal object identity is returned), pick a DIFFERENT legal choice than the code makes today.

For each change i in 1..3 write, under {wt}/out/<i>/ :
  - patch.diff : `git diff` of ONLY that change against the clean worktree (apply each change on a clean tree: `git checkout -- .` between them);
  - demo.py : a small standalone program (run with PYTHONPATH={wt}/hugr-py/src /venv/bin/python demo.py) that exercises what the property states on a few non-trivial inputs / histories and prints PASS (exit 0) both on the clean tree AND with the change applied - it demonstrates that the property still holds; where the change is observable, it should also print what differs (still exit 0). Verify both runs yourself;
  - notes.md : first line a short title of the change; then what changes observably (if anything), and a careful argument why every clause of the property statement still holds for everything it quantifies over; and the test-suite counts you observed with the change.

Finish with `git checkout -- .` so the worktree is clean (keep the out/ directory, it is untracked). Reply with a short summary of the three changes (one paragraph each).

- Never use `git stash` (the stash is shared between worktrees); use `git checkout -- .` and `git apply` only.
- Put a file {wt}/out/conftest.py containing `collect_ignore_glob = ["*"]` so pytest does not collect your demo files, and guard each demo with `if __name__ == "__main__":`.
"""
open(f"/tmp/sf-prompt-{prop}.txt", "w").write(text)
print(f"/tmp/sf-prompt-{prop}.txt")
